//! Engine S — controlled-scheduler exploration of Melda's worker pool and lock nesting.
//!
//! The core modules of slashdotted/libmelda are compiled into this crate from /repo's working tree
//! (cfg melda_verif + melda_verif_sched), with every lock and every parallel iterator routed
//! through src/verif_sched.rs (shuttle). A preemption-bounded depth-first scheduler enumerates
//! every schedule of one operation executed in a prepared state.
#[path = "/repo/src/adapter.rs"]
pub mod adapter;
#[path = "/repo/src/constants.rs"]
mod constants;
#[path = "/repo/src/datastorage.rs"]
mod datastorage;
#[path = "/repo/src/melda.rs"]
pub mod melda;
#[path = "/repo/src/memoryadapter.rs"]
pub mod memoryadapter;
#[path = "/repo/src/revision.rs"]
mod revision;
#[path = "/repo/src/revisiontree.rs"]
mod revisiontree;
#[path = "/repo/src/utils.rs"]
mod utils;
#[path = "/repo/src/verif_hooks.rs"]
pub mod verif_hooks;
pub mod verif_sched;

mod bodies;
mod pbdfs;

fn main() {
    bodies::main();
}
