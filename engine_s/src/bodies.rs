//! Bodies (prepared state x operation), the exploration driver and the JSON report of engine S.
use crate::adapter::Adapter;
use crate::melda::Melda;
use crate::memoryadapter::MemoryAdapter;
use crate::pbdfs::{PbDfs, Replay};
use crate::verif_sched::{Arc, RwLock, RW_POLICY, WORKERS};
use serde_json::{json, Map, Value};
use std::panic::{catch_unwind, AssertUnwindSafe};
use std::sync::atomic::Ordering;
use std::sync::Mutex as StdMutex;
use std::time::Instant;

fn x() -> Value {
    json!({"_id":"x","v":1})
}
fn x2() -> Value {
    json!({"_id":"x","v":2})
}
fn y() -> Value {
    json!({"_id":"y","v":1})
}
fn z() -> Value {
    json!({"_id":"z","v":1})
}
fn obj(v: Value) -> Map<String, Value> {
    v.as_object().unwrap().clone()
}

fn new_replica() -> Melda {
    let a: Box<dyn Adapter> = Box::new(MemoryAdapter::new());
    Melda::new(Arc::new(RwLock::new(a))).expect("new")
}

fn view(m: &Melda) -> Value {
    let mut o = Map::new();
    for uuid in m.get_all_objects() {
        let w = m.get_winner(&uuid).map_err(|e| e.to_string());
        let c = m.get_conflicting(&uuid).map_err(|e| e.to_string());
        let v = m.get_value(&uuid, None).map(Value::Object).map_err(|e| e.to_string());
        o.insert(uuid, json!({"w": w, "c": c, "v": v}));
    }
    json!({
        "objects": o,
        "in_conflict": m.in_conflict(),
        "read": m.read(None).map(Value::Object).map_err(|e| e.to_string()),
        "anchors": m.get_anchors().iter().map(|a| a.to_string()).collect::<Vec<_>>(),
        "staged": m.has_staging(),
        "stage": m.stage().ok().flatten().map(|mut v| { if let Some(c) = v.get_mut("c").and_then(|c| c.as_array_mut()) { c.sort_by_key(|x| x.to_string()); } v }),
        "trees": m.get_all_objects().iter().map(|u| (u.clone(), json!(m.verif_dump_tree(u)))).collect::<Map<String, Value>>(),
    })
}

/// prepared states: returns (target replica, other replica)
fn prepare(state: &str) -> (Melda, Melda) {
    // cache capacities are read from the environment when a replica is constructed
    std::env::set_var("MELDA_ARRAYDESCRIPTORS_CACHE_CAP", if state.starts_with("multi-array") { "3" } else { "16" });
    if state.starts_with("multi-array") {
        let front = state == "multi-array-front";
        // three flattened arrays; the reader has cached version 2 of each (cache full), then receives
        // versions 3 and 4 (edit scripts): reconstruction walks back to the cached ancestor
        let ver = |n: u32| {
            let el = |p: &str, k: u32| json!({"_id": format!("{}{}", p, k), "v": 1});
            // appended elements (patches insert at the end) or prepended ones (patches insert at index 0,
            // which also applies to an empty array)
            let mk = |p: &str| -> Vec<Value> { if front { (0..=n).rev().map(|k| el(p, k)).collect() } else { (0..=n).map(|k| el(p, k)).collect() } };
            json!({"l♭": mk("l"), "m♭": mk("m"), "k♭": mk("k")})
        };
        let a = new_replica();
        let mut b = new_replica();
        a.update(obj(ver(1))).unwrap();
        a.commit(None).unwrap();
        a.update(obj(ver(2))).unwrap();
        a.commit(None).unwrap();
        b.meld(&a).unwrap();
        b.refresh().unwrap();
        b.read(None).unwrap();
        a.update(obj(ver(3))).unwrap();
        a.commit(None).unwrap();
        a.update(obj(ver(4))).unwrap();
        a.commit(None).unwrap();
        b.meld(&a).unwrap();
        b.refresh().unwrap();
        return (b, a);
    }
    let mut a = new_replica();
    let mut b = new_replica();
    let base = json!({"l♭":[x(), y()]});
    a.update(obj(base)).unwrap();
    a.commit(None).unwrap();
    b.meld(&a).unwrap();
    b.refresh().unwrap();
    match state {
        "clean" => {}
        "staged" => {
            b.update(obj(json!({"l♭":[x2(), y(), z()], "s": "t"}))).unwrap();
        }
        "object-conflict" | "object-conflict-staged" => {
            a.update(obj(json!({"l♭":[x2(), y()]}))).unwrap();
            a.commit(None).unwrap();
            b.update(obj(json!({"l♭":[json!({"_id":"x","v":3}), y()]}))).unwrap();
            b.commit(None).unwrap();
            b.meld(&a).unwrap();
            b.refresh().unwrap();
            if state.ends_with("staged") {
                b.update(obj(json!({"l♭":[json!({"_id":"x","v":4}), y(), z()]}))).unwrap();
            }
        }
        "array-conflict" | "array-conflict-staged" | "array-conflict-pending" => {
            a.update(obj(json!({"l♭":[x(), y(), z()]}))).unwrap();
            a.commit(None).unwrap();
            b.update(obj(json!({"l♭":[y()]}))).unwrap();
            b.commit(None).unwrap();
            if state.ends_with("pending") {
                b.meld(&a).unwrap();
            } else {
                b.meld(&a).unwrap();
                b.refresh().unwrap();
                if state.ends_with("staged") {
                    b.update(obj(json!({"l♭":[y(), x()], "s": "u"}))).unwrap();
                }
            }
        }
        "blocked-chain" => {
            // a chain of three further blocks arrives WITHOUT its packs and is refreshed (every new block is held
            // back); then the packs arrive: the next refresh must release the whole chain
            for (i, d) in [json!({"l♭":[x(), y(), z()]}), json!({"l♭":[y(), z()]}), json!({"l♭":[x2(), y(), z()], "s":"t"})].into_iter().enumerate() {
                a.update(obj(d)).unwrap();
                a.commit(Some(obj(json!({"n": i})))).unwrap();
            }
            let (aa, ba) = (a.get_adapter(), b.get_adapter());
            let copy = |ext: &str| {
                let names = aa.read().unwrap().list_objects(ext).unwrap();
                for n in names {
                    let key = format!("{}{}", n, ext);
                    let bytes = aa.read().unwrap().read_object(&key, 0, 0).unwrap();
                    ba.read().unwrap().write_object(&key, &bytes).unwrap();
                }
            };
            copy(".delta");
            b.refresh().unwrap();
            copy(".pack");
        }
        "dropped-array" => {
            a.update(obj(json!({"s":"a"}))).unwrap();
            a.commit(None).unwrap();
            b.update(obj(json!({"l♭":[x(), y()], "s":"t"}))).unwrap();
            b.commit(None).unwrap();
            b.meld(&a).unwrap();
            b.refresh().unwrap();
        }
        _ => panic!("unknown state {}", state),
    }
    (b, a)
}

fn apply(op: &str, b: &mut Melda, a: &Melda) -> String {
    match op {
        "update" => format!("{:?}", b.update(obj(json!({"l♭":[z(), x2(), y()], "m♭":[json!({"_id":"w","v":1})]}))).map_err(|e| e.to_string())),
        "update-same" => {
            let cur = b.read(None).unwrap();
            format!("{:?}", b.update(cur).map_err(|e| e.to_string()))
        }
        "update-drop" => format!("{:?}", b.update(obj(json!({"s":"gone"}))).map_err(|e| e.to_string())),
        "read" => format!("{:?}", b.read(None).map(|_| ()).map_err(|e| e.to_string())),
        "commit" => format!("{:?}", b.commit(None).map(|o| o.map(|s| s.len())).map_err(|e| e.to_string())),
        "refresh" => format!("{:?}", b.refresh().map_err(|e| e.to_string())),
        "reload" => format!("{:?}", b.reload().map_err(|e| e.to_string())),
        "unstage" => format!("{:?}", b.unstage().map_err(|e| e.to_string())),
        "queries" => format!("{:?} {:?}", b.has_staging(), b.in_conflict()),
        "snapshot" => format!("{:?}", b.stage_full_snapshot().map_err(|e| e.to_string())),
        "meld" => format!("{:?}", b.meld(a).map(|mut v| { v.sort(); v }).map_err(|e| e.to_string())),
        "resolve-winner" | "resolve-loser" => {
            let c: Vec<String> = b.in_conflict().into_iter().collect();
            match c.first() {
                None => "no-conflict".to_string(),
                Some(u) => {
                    let leafs = b.verif_leafs(u).unwrap();
                    let l = if op == "resolve-winner" { leafs.last() } else { leafs.first() }.unwrap().clone();
                    format!("{:?}", b.resolve_as(u, &l).map_err(|e| e.to_string()))
                }
            }
        }
        "stage-roundtrip" => {
            let s = b.stage().unwrap();
            b.unstage().unwrap();
            format!("{:?}", b.replay_stage(&s).map_err(|e| e.to_string()))
        }
        _ => panic!("unknown op {}", op),
    }
}

pub fn body_list(thorough: bool) -> Vec<(&'static str, &'static str)> {
    let mut v = vec![
        ("clean", "update"),
        ("clean", "read"),
        ("staged", "commit"),
        ("staged", "read"),
        ("staged", "unstage"),
        ("staged", "update-drop"),
        ("object-conflict", "read"),
        ("object-conflict", "resolve-loser"),
        ("object-conflict-staged", "commit"),
        ("array-conflict", "read"),
        ("array-conflict", "update"),
        ("array-conflict", "resolve-loser"),
        ("array-conflict-staged", "commit"),
        ("array-conflict-pending", "refresh"),
        ("dropped-array", "read"),
        ("array-conflict", "queries"),
        ("multi-array-behind", "read"),
        ("multi-array-behind", "update"),
        ("multi-array-front", "read"),
        ("blocked-chain", "refresh"),
    ];
    if thorough {
        v.extend(vec![
            ("clean", "update-same"),
            ("clean", "meld"),
            ("clean", "reload"),
            ("staged", "stage-roundtrip"),
            ("staged", "snapshot"),
            ("staged", "queries"),
            ("object-conflict", "resolve-winner"),
            ("object-conflict", "update"),
            ("object-conflict-staged", "unstage"),
            ("array-conflict", "snapshot"),
            ("array-conflict", "resolve-winner"),
            ("array-conflict", "reload"),
            ("array-conflict-staged", "unstage"),
            ("array-conflict-staged", "read"),
            ("array-conflict-pending", "reload"),
            ("dropped-array", "update"),
            ("dropped-array", "commit"),
            ("blocked-chain", "reload"),
            ("blocked-chain", "meld"),
        ]);
    }
    v
}

fn one_execution(state: &str, op: &str, workers: usize, expected: &StdMutex<Option<String>>, outcomes: &StdMutex<std::collections::BTreeSet<String>>) {
    WORKERS.store(1, Ordering::SeqCst);
    let (mut b, a) = prepare(state);
    WORKERS.store(workers, Ordering::SeqCst);
    let ret = apply(op, &mut b, &a);
    WORKERS.store(1, Ordering::SeqCst);
    let v = json!({"ret": ret, "view": view(&b)}).to_string();
    outcomes.lock().unwrap().insert(v.clone());
    let mut e = expected.lock().unwrap();
    match &*e {
        None => *e = Some(v),
        Some(exp) => {
            if exp != &v {
                let (ev, gv) = (exp.clone(), v.clone());
                drop(e);
                panic!("VIEW-DIFFERS from the sequential run\nexpected: {}\ngot:      {}", ev, gv);
            }
        }
    }
}

fn config() -> shuttle::Config {
    let mut c = shuttle::Config::new();
    c.failure_persistence = shuttle::FailurePersistence::None;
    c.max_steps = shuttle::MaxSteps::FailAfter(2_000_000);
    c.silence_warnings = true;
    c.stack_size = 1 << 20;
    c
}

pub fn main() {
    let args: Vec<String> = std::env::args().collect();
    let thorough = args.iter().any(|a| a == "thorough");
    let quiet_hook = std::env::var("MV_SHOW_PANICS").is_err();
    let last_panic: std::sync::Arc<StdMutex<String>> = std::sync::Arc::new(StdMutex::new(String::new()));
    {
        let lp = last_panic.clone();
        std::panic::set_hook(Box::new(move |info| {
            let msg = if let Some(s) = info.payload().downcast_ref::<&str>() { s.to_string() } else if let Some(s) = info.payload().downcast_ref::<String>() { s.clone() } else { "<panic>".into() };
            let loc = info.location().map(|l| format!("{}:{}", l.file(), l.line())).unwrap_or_default();
            let mut g = lp.lock().unwrap();
            // keep the first panic of an execution (later ones are consequences)
            if g.is_empty() {
                *g = format!("{} @ {}", msg, loc);
            }
            if !quiet_hook {
                eprintln!("[panic] {} @ {}", msg, loc);
            }
        }));
    }
    if let Some(i) = args.iter().position(|a| a == "--replay") {
        // --replay <state> <op> <workers> <policy> <comma separated task ids>
        let (state, op) = (args[i + 1].clone(), args[i + 2].clone());
        let workers: usize = args[i + 3].parse().unwrap();
        RW_POLICY.store(args[i + 4].parse().unwrap(), Ordering::SeqCst);
        let sched: Vec<usize> = args[i + 5].split(',').filter(|s| !s.is_empty()).map(|s| s.parse().unwrap()).collect();
        let expected = std::sync::Arc::new(StdMutex::new(None));
        let outcomes = std::sync::Arc::new(StdMutex::new(Default::default()));
        {
            let (e, o, s, p) = (expected.clone(), outcomes.clone(), state.clone(), op.clone());
            shuttle::Runner::new(PbDfs::new(0, 1).0, config()).run(move || one_execution(&s, &p, 1, &e, &o));
        }
        let (e, o) = (expected.clone(), outcomes.clone());
        let r = catch_unwind(AssertUnwindSafe(|| {
            shuttle::Runner::new(Replay { schedule: sched, step: 0, ran: false }, config()).run(move || one_execution(&state, &op, workers, &e, &o));
        }));
        match r {
            Ok(_) => println!("replay: completed without failure"),
            Err(_) => println!("replay: FAILED: {}", last_panic.lock().unwrap()),
        }
        return;
    }
    let t0 = Instant::now();
    let mut bodies_out = vec![];
    let configs: Vec<(usize, usize, usize)> = if thorough {
        // (workers, preemption bound, rw policy)
        vec![(2, 2, 0), (2, 1, 1), (3, 1, 0), (3, 1, 1)]
    } else {
        vec![(2, 1, 0), (2, 1, 1)]
    };
    let max_exec = if thorough { 400_000 } else { 20_000 };
    let mut failures = vec![];
    let mut total_exec = 0usize;
    let only: Option<String> = args.iter().position(|a| a == "--only").map(|i| args[i + 1].clone());
    for (state, op) in body_list(thorough) {
        if let Some(o) = &only {
            if !state.starts_with(o.as_str()) {
                continue;
            }
        }
        for &(workers, bound, policy) in &configs {
            RW_POLICY.store(policy, Ordering::SeqCst);
            let expected = std::sync::Arc::new(StdMutex::new(None));
            let outcomes: std::sync::Arc<StdMutex<std::collections::BTreeSet<String>>> = std::sync::Arc::new(StdMutex::new(Default::default()));
            // sequential reference run (also replayed twice: ownership of nondeterminism)
            for _ in 0..2 {
                let (e, o) = (expected.clone(), outcomes.clone());
                last_panic.lock().unwrap().clear();
                let r = catch_unwind(AssertUnwindSafe(|| {
                    shuttle::Runner::new(PbDfs::new(0, 1).0, config()).run(move || one_execution(state, op, 1, &e, &o));
                }));
                if r.is_err() {
                    failures.push(json!({"state": state, "op": op, "workers": 1, "policy": policy, "kind": "sequential-run-failed", "message": last_panic.lock().unwrap().clone(), "schedule": []}));
                }
            }
            if expected.lock().unwrap().is_none() {
                continue;
            }
            let (mut sched, shared) = PbDfs::new(bound, max_exec);
            sched.deadline = Some(Instant::now() + std::time::Duration::from_secs(if thorough { 150 } else { 20 }));
            let (e, o) = (expected.clone(), outcomes.clone());
            last_panic.lock().unwrap().clear();
            let r = catch_unwind(AssertUnwindSafe(|| {
                shuttle::Runner::new(sched, config()).run(move || one_execution(state, op, workers, &e, &o));
            }));
            let sh = shared.lock().unwrap().clone();
            total_exec += sh.executions;
            let complete = r.is_ok() && !sh.capped;
            if r.is_err() {
                let msg = last_panic.lock().unwrap().clone();
                let kind = if msg.contains("VIEW-DIFFERS") { "view-differs" } else if msg.to_lowercase().contains("deadlock") { "deadlock" } else if msg.contains("MACHINERY") { "machinery" } else { "panic" };
                failures.push(json!({"state": state, "op": op, "workers": workers, "policy": policy, "bound": bound, "kind": kind, "message": msg.chars().take(600).collect::<String>(), "schedule": sh.current}));
            }
            bodies_out.push(json!({
                "state": state, "op": op, "workers": workers, "preemption_bound": bound,
                "rwlock_policy": if policy == 0 { "reader-preferring" } else { "writer-preferring" },
                "schedules": sh.executions, "max_scheduling_points": sh.max_points,
                "total_scheduling_points": sh.total_points, "schedules_with_preemption": sh.preempting_executions,
                "complete_within_bound": complete, "distinct_outcomes": outcomes.lock().unwrap().len(),
            }));
        }
    }
    println!("RESULT {}", json!({"bodies": bodies_out, "failures": failures, "schedules": total_exec, "wall_s": t0.elapsed().as_secs_f64()}));
}
