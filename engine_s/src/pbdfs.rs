//! Iterative preemption-bounding depth-first scheduler for shuttle (CHESS style).
//!
//! At every scheduling point the enabled tasks are put in canonical order (the running task first
//! if it is still enabled, then ascending task ids). Choice 0 is the default; choosing another task
//! while the running one is still enabled costs one preemption. All schedules whose number of
//! preemptions stays within the bound are enumerated depth-first; executions always run to completion.
use shuttle::scheduler::{Schedule, Scheduler, Task, TaskId};
use std::sync::{Arc, Mutex};

#[derive(Clone, Debug)]
struct Level {
    /// number of options at this point
    options: usize,
    /// index (in canonical order) taken
    chosen: usize,
    /// whether the running task was still enabled (=> a non-zero choice is a preemption)
    running_enabled: bool,
    /// preemptions used strictly before this point
    preemptions_before: usize,
}

#[derive(Default, Debug, Clone)]
pub struct Shared {
    /// task ids chosen in the current execution
    pub current: Vec<usize>,
    pub executions: usize,
    pub capped: bool,
    pub max_points: usize,
    pub total_points: usize,
    pub preempting_executions: usize,
}

pub struct PbDfs {
    bound: usize,
    max_executions: usize,
    /// wall-clock cap for this exploration (a capped exploration is reported as not complete)
    pub deadline: Option<std::time::Instant>,
    levels: Vec<Level>,
    step: usize,
    started: bool,
    done: bool,
    pub shared: Arc<Mutex<Shared>>,
}

impl PbDfs {
    pub fn new(bound: usize, max_executions: usize) -> (PbDfs, Arc<Mutex<Shared>>) {
        let shared = Arc::new(Mutex::new(Shared::default()));
        (
            PbDfs {
                bound,
                max_executions,
                deadline: None,
                levels: vec![],
                step: 0,
                started: false,
                done: false,
                shared: shared.clone(),
            },
            shared,
        )
    }

    /// prepares `levels` for the next execution: advance the deepest level that still has an
    /// affordable alternative, drop everything below it
    fn backtrack(&mut self) -> bool {
        while let Some(l) = self.levels.pop() {
            let mut next = l.chosen + 1;
            while next < l.options {
                let cost = l.preemptions_before + if l.running_enabled { 1 } else { 0 };
                if cost <= self.bound {
                    let mut nl = l.clone();
                    nl.chosen = next;
                    self.levels.push(nl);
                    return true;
                }
                next += 1;
            }
        }
        false
    }
}

fn canonical(runnable: &[&Task], current: Option<TaskId>) -> (Vec<TaskId>, bool) {
    let mut ids: Vec<TaskId> = runnable.iter().map(|t| t.id()).collect();
    ids.sort_by_key(|t| usize::from(*t));
    let mut running_enabled = false;
    if let Some(c) = current {
        if let Some(pos) = ids.iter().position(|t| *t == c) {
            let t = ids.remove(pos);
            ids.insert(0, t);
            running_enabled = true;
        }
    }
    (ids, running_enabled)
}

impl Scheduler for PbDfs {
    fn new_execution(&mut self) -> Option<Schedule> {
        if self.done {
            return None;
        }
        if self.started {
            {
                let mut sh = self.shared.lock().unwrap();
                sh.max_points = sh.max_points.max(self.step);
                sh.total_points += self.step;
                if self.levels.iter().any(|l| l.running_enabled && l.chosen > 0) {
                    sh.preempting_executions += 1;
                }
            }
            if !self.backtrack() {
                self.done = true;
                return None;
            }
        }
        {
            let mut sh = self.shared.lock().unwrap();
            if sh.executions >= self.max_executions || self.deadline.is_some_and(|d| std::time::Instant::now() > d) {
                self.done = true;
                sh.capped = true;
                return None;
            }
            sh.executions += 1;
            sh.current.clear();
        }
        self.started = true;
        self.step = 0;
        Some(Schedule::new(0))
    }

    fn next_task(&mut self, runnable: &[&Task], current: Option<TaskId>, _is_yielding: bool) -> Option<TaskId> {
        let (ids, running_enabled) = canonical(runnable, current);
        let choice = if self.step < self.levels.len() {
            let l = &self.levels[self.step];
            if l.options != ids.len() || l.running_enabled != running_enabled {
                panic!(
                    "MACHINERY: schedule replay diverged at point {} ({} options recorded, {} now)",
                    self.step,
                    l.options,
                    ids.len()
                );
            }
            l.chosen
        } else {
            let before = match self.levels.last() {
                None => 0,
                Some(l) => l.preemptions_before + if l.running_enabled && l.chosen > 0 { 1 } else { 0 },
            };
            self.levels.push(Level {
                options: ids.len(),
                chosen: 0,
                running_enabled,
                preemptions_before: before,
            });
            0
        };
        self.step += 1;
        let t = ids[choice];
        self.shared.lock().unwrap().current.push(usize::from(t));
        Some(t)
    }

    fn next_u64(&mut self) -> u64 {
        0
    }
}

/// Replays one recorded schedule (list of task ids)
pub struct Replay {
    pub schedule: Vec<usize>,
    pub step: usize,
    pub ran: bool,
}

impl Scheduler for Replay {
    fn new_execution(&mut self) -> Option<Schedule> {
        if self.ran {
            return None;
        }
        self.ran = true;
        self.step = 0;
        Some(Schedule::new(0))
    }
    fn next_task(&mut self, runnable: &[&Task], current: Option<TaskId>, _y: bool) -> Option<TaskId> {
        let (ids, _) = canonical(runnable, current);
        let want = self.schedule.get(self.step).copied();
        self.step += 1;
        match want {
            Some(w) => match ids.iter().find(|t| usize::from(**t) == w) {
                Some(t) => Some(*t),
                None => panic!("MACHINERY: replay diverged: task {} is not enabled at point {}", w, self.step - 1),
            },
            None => Some(ids[0]),
        }
    }
    fn next_u64(&mut self) -> u64 {
        0
    }
}
