//! Controlled-scheduler shims for the lock and parallel-iterator seams of melda.rs & co.
//!
//! * `Mutex`  = shuttle's mutex (std API; locking it twice from one task is reported as deadlock)
//! * `RwLock` = reader/writer lock built on shuttle's Mutex + Condvar that tolerates same-task
//!   recursive reads (Melda performs them) and is run under two admission policies
//! * `par`    = `par_iter` / `into_par_iter` / `par_iter_mut` handing their items through a shared
//!   queue to W scoped shuttle threads (item-to-worker assignment is a scheduling choice)
use std::cell::UnsafeCell;
use std::ops::{Deref, DerefMut};
use std::sync::atomic::{AtomicUsize, Ordering};

pub use shuttle::sync::Mutex;
pub use std::sync::Arc;

/// 0 = reader-preferring, 1 = writer-preferring (a new reader - also a recursive one - waits while
/// a writer is waiting, as std's futex implementation does)
pub static RW_POLICY: AtomicUsize = AtomicUsize::new(0);
/// number of worker tasks of the parallel sections (0/1 = run inline on the caller)
pub static WORKERS: AtomicUsize = AtomicUsize::new(1);

struct RwState {
    readers: usize,
    writer: bool,
    writers_waiting: usize,
}

pub struct RwLock<T: ?Sized> {
    state: shuttle::sync::Mutex<RwState>,
    cond: shuttle::sync::Condvar,
    data: UnsafeCell<T>,
}

unsafe impl<T: ?Sized + Send> Send for RwLock<T> {}
unsafe impl<T: ?Sized + Send + Sync> Sync for RwLock<T> {}

#[derive(Debug)]
pub struct Poison;

pub struct RwLockReadGuard<'a, T: ?Sized> {
    lock: &'a RwLock<T>,
}

pub struct RwLockWriteGuard<'a, T: ?Sized> {
    lock: &'a RwLock<T>,
}

impl<T> RwLock<T> {
    pub fn new(t: T) -> Self {
        RwLock {
            state: shuttle::sync::Mutex::new(RwState {
                readers: 0,
                writer: false,
                writers_waiting: 0,
            }),
            cond: shuttle::sync::Condvar::new(),
            data: UnsafeCell::new(t),
        }
    }
}

impl<T: ?Sized> RwLock<T> {
    pub fn read(&self) -> Result<RwLockReadGuard<'_, T>, Poison> {
        let mut st = self.state.lock().unwrap();
        loop {
            let writer_pref = RW_POLICY.load(Ordering::SeqCst) == 1;
            if !st.writer && !(writer_pref && st.writers_waiting > 0) {
                st.readers += 1;
                return Ok(RwLockReadGuard { lock: self });
            }
            st = self.cond.wait(st).unwrap();
        }
    }

    pub fn write(&self) -> Result<RwLockWriteGuard<'_, T>, Poison> {
        let mut st = self.state.lock().unwrap();
        st.writers_waiting += 1;
        loop {
            if !st.writer && st.readers == 0 {
                st.writers_waiting -= 1;
                st.writer = true;
                return Ok(RwLockWriteGuard { lock: self });
            }
            st = self.cond.wait(st).unwrap();
        }
    }

    pub fn get_mut(&mut self) -> Result<&mut T, Poison> {
        Ok(self.data.get_mut())
    }
}

impl<T: ?Sized> Drop for RwLockReadGuard<'_, T> {
    fn drop(&mut self) {
        let mut st = self.lock.state.lock().unwrap();
        st.readers -= 1;
        drop(st);
        self.lock.cond.notify_all();
    }
}

impl<T: ?Sized> Drop for RwLockWriteGuard<'_, T> {
    fn drop(&mut self) {
        let mut st = self.lock.state.lock().unwrap();
        st.writer = false;
        drop(st);
        self.lock.cond.notify_all();
    }
}

impl<T: ?Sized> Deref for RwLockReadGuard<'_, T> {
    type Target = T;
    fn deref(&self) -> &T {
        unsafe { &*self.lock.data.get() }
    }
}

impl<T: ?Sized> Deref for RwLockWriteGuard<'_, T> {
    type Target = T;
    fn deref(&self) -> &T {
        unsafe { &*self.lock.data.get() }
    }
}

impl<T: ?Sized> DerefMut for RwLockWriteGuard<'_, T> {
    fn deref_mut(&mut self) -> &mut T {
        unsafe { &mut *self.lock.data.get() }
    }
}

pub mod par {
    use super::WORKERS;
    use std::collections::VecDeque;
    use std::sync::atomic::Ordering;

    /// Runs f over the items on W worker tasks fed from a shared queue; results in item order
    fn run<T: Send, R: Send, F: Fn(T) -> R + Sync>(items: Vec<T>, f: F) -> Vec<R> {
        let w = WORKERS.load(Ordering::SeqCst);
        let n = items.len();
        if w <= 1 || n == 0 {
            return items.into_iter().map(f).collect();
        }
        let queue: shuttle::sync::Mutex<VecDeque<(usize, T)>> =
            shuttle::sync::Mutex::new(items.into_iter().enumerate().collect());
        let results: shuttle::sync::Mutex<Vec<Option<R>>> =
            shuttle::sync::Mutex::new((0..n).map(|_| None).collect());
        shuttle::thread::scope(|s| {
            for _ in 0..w.min(n) {
                s.spawn(|| loop {
                    let next = queue.lock().unwrap().pop_front();
                    match next {
                        None => break,
                        Some((i, item)) => {
                            let r = f(item);
                            results.lock().unwrap()[i] = Some(r);
                        }
                    }
                });
            }
        });
        results
            .into_inner()
            .unwrap()
            .into_iter()
            .map(|r| r.expect("worker did not produce a result"))
            .collect()
    }

    pub struct Par<T> {
        items: Vec<T>,
    }

    pub struct ParFilter<T, P> {
        items: Vec<T>,
        pred: P,
    }

    pub struct ParFilterMap<T, P, M> {
        items: Vec<T>,
        pred: P,
        map: M,
    }

    impl<T: Send> Par<T> {
        pub fn for_each<F: Fn(T) + Sync + Send>(self, f: F) {
            run(self.items, f);
        }
        pub fn try_for_each<E: Send, F: Fn(T) -> Result<(), E> + Sync + Send>(self, f: F) -> Result<(), E> {
            run(self.items, f).into_iter().collect()
        }
        pub fn any<F: Fn(T) -> bool + Sync + Send>(self, f: F) -> bool {
            run(self.items, f).into_iter().any(|b| b)
        }
        pub fn filter<P: Fn(&T) -> bool + Sync + Send>(self, pred: P) -> ParFilter<T, P> {
            ParFilter {
                items: self.items,
                pred,
            }
        }
    }

    impl<T: Send, P: Fn(&T) -> bool + Sync + Send> ParFilter<T, P> {
        pub fn for_each<F: Fn(T) + Sync + Send>(self, f: F) {
            let pred = self.pred;
            run(self.items, |t| {
                if pred(&t) {
                    f(t)
                }
            });
        }
        pub fn try_for_each<E: Send, F: Fn(T) -> Result<(), E> + Sync + Send>(self, f: F) -> Result<(), E> {
            let pred = self.pred;
            run(self.items, |t| if pred(&t) { f(t) } else { Ok(()) }).into_iter().collect()
        }
        pub fn map<U: Send, M: Fn(T) -> U + Sync + Send>(self, map: M) -> ParFilterMap<T, P, M> {
            ParFilterMap {
                items: self.items,
                pred: self.pred,
                map,
            }
        }
    }

    impl<T: Send, U: Send, P: Fn(&T) -> bool + Sync + Send, M: Fn(T) -> U + Sync + Send>
        ParFilterMap<T, P, M>
    {
        pub fn collect<C: FromIterator<U>>(self) -> C {
            let (pred, map) = (self.pred, self.map);
            run(self.items, |t| if pred(&t) { Some(map(t)) } else { None })
                .into_iter()
                .flatten()
                .collect()
        }
    }

    pub trait ParRef<'a> {
        type Item: Send;
        fn par_iter(&'a self) -> Par<Self::Item>;
    }

    impl<'a, C: 'a + ?Sized> ParRef<'a> for C
    where
        &'a C: IntoIterator,
        <&'a C as IntoIterator>::Item: Send,
    {
        type Item = <&'a C as IntoIterator>::Item;
        fn par_iter(&'a self) -> Par<Self::Item> {
            Par {
                items: self.into_iter().collect(),
            }
        }
    }

    pub trait ParMut<'a> {
        type Item: Send;
        fn par_iter_mut(&'a mut self) -> Par<Self::Item>;
    }

    impl<'a, C: 'a + ?Sized> ParMut<'a> for C
    where
        &'a mut C: IntoIterator,
        <&'a mut C as IntoIterator>::Item: Send,
    {
        type Item = <&'a mut C as IntoIterator>::Item;
        fn par_iter_mut(&'a mut self) -> Par<Self::Item> {
            Par {
                items: self.into_iter().collect(),
            }
        }
    }

    pub trait IntoPar: IntoIterator + Sized
    where
        Self::Item: Send,
    {
        fn into_par_iter(self) -> Par<Self::Item> {
            Par {
                items: self.into_iter().collect(),
            }
        }
    }

    impl<C: IntoIterator + Sized> IntoPar for C where C::Item: Send {}
}
