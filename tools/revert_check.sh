#!/bin/bash
# revert_check.sh : for every "fix:" commit of /repo, reverts it in the working tree (never committed), runs the
# checks of the properties it repaired, and reports whether the violation comes back ("a fixed entry suppresses
# nothing"). /repo must be clean; it is restored with `git reset --hard HEAD` after each commit.
set -u
cd /repo || exit 2
if [ -n "$(git status --porcelain -- src Cargo.toml)" ]; then echo "/repo has uncommitted changes; refusing"; exit 2; fi
declare -A CHECKS=(
 [fe45e10]="C08" [dbb8726]="C03" [225a825]="C03" [66efab1]="C03 C11" [ba34e81]="C04 C08" [ddafc01]="C08"
 [0b3c11e]="C16 C04" [b94bba4]="C07" [ee0eba4]="C10" [3239623]="C17" [005a616]="C04" [ab58e82]="C08" [6938621]="C12" [5e77ce5]="C04" [c575c79]="C08" [41d12e8]="C04" [a8e785f]="C17"
)
ALL="fe45e10 dbb8726 225a825 66efab1 ba34e81 ddafc01 0b3c11e b94bba4 ee0eba4 3239623 005a616 ab58e82 6938621 5e77ce5 c575c79 41d12e8 a8e785f"
for H in ${@:-$ALL}; do
  if ! git revert --no-commit $H >/dev/null 2>&1; then
    echo "== $H: revert conflicts with later commits (skipped)"; git revert --abort >/dev/null 2>&1; git reset -q --hard HEAD; continue
  fi
  for C in ${CHECKS[$H]}; do
    OUT=$(MV_NO_EVIDENCE=1 /verif/check $C --tier quick 2>&1); RC=$?
    echo "== revert $H ($(git log -1 --format=%s $H | cut -c1-70)) vs $C: exit=$RC"
    echo "$OUT" | grep -E "^(VIOLATION|MACHINERY)" | sed -E 's/replay=[^ ]+ +//' | cut -c1-220 | head -3
  done
  git revert --abort >/dev/null 2>&1; git reset -q --hard HEAD
done
git status --short
