#!/usr/bin/env python3
"""Runs the seeded changes under /verif/seeded against the checks named on the command line (default: the
check of the seed's own property plus the extra checks listed in meta.json 'also') and records which check
reports which signature in meta.json. Usage: seed_matrix.py [seed-id ...]"""
import json, os, subprocess, sys, re
ROOT='/verif/seeded'
ids = sys.argv[1:] or sorted(os.listdir(ROOT))
for sid in ids:
    mp=f'{ROOT}/{sid}/meta.json'
    meta=json.load(open(mp))
    checks=[meta['property']]+meta.get('also',[])
    out=subprocess.run(['/verif/tools/run_seed.sh',sid]+checks,capture_output=True,text=True,env=dict(os.environ,LINES_MAX='40')).stdout
    det={}
    cur=None
    for line in out.splitlines():
        m=re.match(r'== (\S+) vs (\S+): exit=(\d+)',line)
        if m:
            cur=m.group(2); det[cur]={'exit':int(m.group(3)),'signatures':[]}
            continue
        m=re.match(r'VIOLATION property=\S+ replay=\S+\s+# (\S.*?) :: ',line)
        if m and cur:
            det[cur]['signatures'].append(m.group(1))
    meta['detected_by']={c:v['signatures'] for c,v in det.items() if v['exit']==1}
    meta['not_detected_by']=[c for c,v in det.items() if v['exit']==0]
    meta['ran']='tools/run_seed.sh: git -C /repo apply patch.diff; ./check <id> --tier quick (MV_NO_EVIDENCE=1); git -C /repo checkout -- src'
    json.dump(meta,open(mp,'w'),indent=1,ensure_ascii=False)
    print(sid, 'detected by', {c:v[:1] for c,v in meta['detected_by'].items()}, 'missed by', meta['not_detected_by'])
