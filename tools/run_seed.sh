#!/bin/bash
# run_seed.sh <seed id> <check> [<check>...]  — applies /verif/seeded/<id>/patch.diff to /repo, runs the
# given checks (quick tier unless TIER=thorough), prints their verdict lines, and undoes the change.
set -u
ID="$1"; shift
cd /repo || exit 2
if [ -n "$(git status --porcelain -- src Cargo.toml)" ]; then echo "/repo has uncommitted changes; refusing"; exit 2; fi
git apply /verif/seeded/$ID/patch.diff || { echo "$ID: patch does not apply to /repo"; exit 2; }
for C in "$@"; do
  OUT=$(MV_NO_EVIDENCE=1 /verif/check $C --tier ${TIER:-quick} 2>&1); RC=$?
  echo "== $ID vs $C: exit=$RC"
  echo "$OUT" | grep -E "^(VIOLATION|KNOWN-FINDING|MACHINERY|C[0-9]+ tier)" | cut -c1-400 | head -${LINES_MAX:-6}
done
git -C /repo checkout -- src Cargo.toml
