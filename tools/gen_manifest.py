#!/usr/bin/env python3
"""Regenerates /verif/MANIFEST.json from the table below (kept in one place so that the manifest is
always valid and in step with the checks that exist)."""
import json, os, subprocess
ROOT = os.path.dirname(os.path.dirname(os.path.abspath(__file__)))
props = [json.loads(l) for l in open(os.path.join(ROOT, 'properties.jsonl'))]
ids = [p['id'] for p in props]

# property -> (category, text, note, technique, design_ref, engine)
BFS = 'bounded exhaustive state-space exploration (BFS over operation histories with canonical-state deduplication) of the real implementation'
TRUST = 'Bounds are small (2-3 replicas, 3 element ids, depth as reported in the evidence); the small-scope hypothesis bridges to larger cases. sha256/7-hex-tail collisions are not explored. '
CHECKS = {
 'C01': ('model_checking', 'Every distinct state of 2- and 3-replica histories; for every ordered replica pair the union of their storages is reached by five routes (fresh open on a file copy - also under permuted hash-iteration and listing orders -, copy+refresh, reload, item-by-item refresh, meld fix-point) and all views must coincide.', TRUST + 'Delivery orders beyond ascending/descending/all-at-once are enumerated by C02.', BFS + ' + route enumeration per state', 'DESIGN.md §4 C01', 'H'),
 'C02': ('model_checking', 'For every distinct state and every (source, target) pair lacking 1..N items: every permutation of the missing files delivered one at a time with refresh after each; after every delivery applied blocks == causally complete blocks (independent raw-byte reference), view == fresh open == fresh open of the complete sub-store.', TRUST + 'Reference completeness model is ~150 lines over serde_json/sha256 (harness/src/refmodel.rs).', BFS + ' + exhaustive permutation of delivery orders against a reference model', 'DESIGN.md §4 C02', 'H'),
 'C03': ('model_checking', 'At every successful commit transition of the explored histories a fresh replica opened on a byte copy of the storage must expose the same view and block graph; plus an exhaustive content sweep (all strings over a brace/quote/backslash alphabet up to a length bound in 6 positions, a number family, two-commit cases) through update-commit-reopen.', TRUST + 'Foreign items melded but not yet refreshed are excluded from the reopened copy (outside the statement).', BFS + ' + exhaustive enumeration of a content alphabet', 'DESIGN.md §4 C03', 'H,P'),
 'C04': ('model_checking', 'In every distinct state and for every document of the menu: update then read must equal an independently computed expectation exactly (weaker multiset clause while an array descriptor is in conflict); a second identical update changes nothing; commit with nothing staged writes nothing.', TRUST + 'Well-formed documents: flattened-array elements carry unique string _id not starting with ^. Two input classes are recorded as known findings.', BFS + ' with a reference function for the expected document', 'DESIGN.md §4 C04', 'H'),
 'C08': ('model_checking',
         'Explicit-state breadth-first exploration of operation histories over real replicas (2-3 replicas, small document menu); in every distinct state every operation of the full API alphabet is attempted under catch_unwind and a heartbeat watchdog, for several rayon pool sizes; plus engine S: every thread schedule (preemption bound 1/2, 2-3 workers, two RwLock admission policies) of single operations in prepared states must finish without deadlock or panic. Coverage statement: no operation panics or fails to return in any state reachable within the stated depth, under any schedule within the stated preemption bound. Three reference-cycle histories (objects moved below each other concurrently) are run in a child process; an abnormal exit of the child - or a SIGABRT/SIGSEGV death of the in-process exploration - is reported as the violation.',
         'Trusted: the watchdog threshold (10 s without progress = did not return); engine S models the worker pool as a queue + W workers and trusts rayon internals and std lock implementations.',
         BFS + ' + preemption-bounded exhaustive schedule exploration (shuttle runtime, custom DFS scheduler)', 'DESIGN.md §3.1, §3.5, §4 C08', 'H,S'),
 'C05': ('model_checking', '(P) every subset (up to 4/5 entries) of a universe of system-generated revisions inserted in every order through add() and through unvalidated_add+validate under permuted iteration orders, against an independent leaf/winner reference; (H) in every explored replica state every object\'s winner, conflict set and in_conflict membership equals the same reference computed from the tree dump.', TRUST, 'exhaustive enumeration of trees x insertion orders + ' + BFS, 'DESIGN.md §4 C05', 'P,H'),
 'C06': ('model_checking', '(P) merge_arrays on all ordered pairs of duplicate-free sequences (k ids, length <= L) and all folded triples against set/order oracles; (H) in every explored state of concurrent array-edit histories the read arrays are checked against every live leaf version rebuilt through the accessor (membership, uniqueness across arrays, winner order, agreeing versions\' order, no deleted element).', TRUST, 'exhaustive enumeration of sequence pairs/triples + ' + BFS, 'DESIGN.md §4 C06', 'P,H'),
 'C07': ('model_checking', 'In every explored state with conflicts: every object in conflict x every live leaf is resolved; conflict set, value / absence, unchanged document when the winner is chosen, array membership and order are checked; then commit + sync propagation and every pair of independent resolutions to a cross-sync fix-point. State invariant: with nothing staged and everything applied the live conflict set equals that of a freshly opened replica.', TRUST, BFS + ' with exhaustive choice enumeration per state', 'DESIGN.md §4 C07', 'H'),
 'C09': ('fault_enumeration', 'For every distinct staged replica state: every prefix of commit\'s write log as a crash point, every single write failure and every pair (failure, failure during retry); for every (target, source) state pair: every prefix and every subset (bounded) of meld\'s writes, every single write failure followed by a retry. Oracles: reopen == state of the causally complete sub-store, commit crash states are old-or-new, pack-before-block monitor, staged changes and document intact after a failed commit, retry == uninterrupted twin.', TRUST + 'Item writes are atomic (as the property states).', 'exhaustive crash-point / write-failure enumeration over histories found by ' + BFS, 'DESIGN.md §4 C09', 'H,F'),
 'C10': ('fault_enumeration', 'For storages taken from explored histories: every single-bit flip and every truncation of every item, every subset of items deleted, and a junk-injection menu; each damaged storage is opened and (sampled positions, all injections) presented to a live replica\'s refresh; accepted: an error, or exactly the state of the intact causally complete subset (independent reference); panics are violations.', TRUST, 'exhaustive single-fault corruption enumeration against a reference model', 'DESIGN.md §4 C10', 'F'),
 'C12': ('model_checking', 'In every explored state: read before / after each maintenance operation (commit incl. automatic array-conflict resolution, full snapshot, meld without refresh, refresh / reload when nothing is unapplied) and their compositions.', TRUST, BFS + ' with a differential read oracle', 'DESIGN.md §4 C12', 'H'),
 'C14': ('model_checking', 'Every recorded head set of every replica is revisited from every later explored state: reload_until / new_until must reproduce the recorded view, tree dumps and every revision\'s value and parent; reload returns to the latest state; repeated for cache capacities 1 and 16.', TRUST, BFS + ' with recorded-state differential oracle', 'DESIGN.md §4 C14', 'H'),
 'C15': ('model_checking', 'In every explored state with staged changes: unstage == last clean state (view + full tree dumps), export/discard/replay == identity, commit after the round trip == direct commit, reload/refresh/time travel refuse and change nothing; after every commit nothing is staged.', TRUST, BFS + ' with recorded-state differential oracle', 'DESIGN.md §4 C15', 'H'),
 'C16': ('exploration', '(a) all ordered pairs of sequences with repetition (k symbols, length <= 6) through make_diff_patch/apply_diff_patch; (b) every chain up to length 3/4 over the 16 duplicate-free arrays on 3 ids plus key-absent, through update/commit/read/reopen and per-version reconstruction, for 6 cache-capacity configurations; (b2) every chain length 1..40 (thorough 1..96) of single-step edits of one array x array-cache capacity {1,2}: a freshly opened replica reads the last submitted version.', TRUST, 'exhaustive enumeration of sequence pairs and update chains on the real implementation + BFS over multi-replica histories with ground-truth versions + preemption-bounded schedule exploration of the cache shortcut', 'DESIGN.md §4 C16', 'P,H,S'),
 'C17': ('model_checking', 'Engine A: BFS over write/reopen sequences (abstract-state deduplicated) on memory, directory, SQLite file, SQLite in-memory x {plain, Deflate, Brotli}; after every step whole reads, every small slice, boundary slices and listings are compared with a first-write-wins map; then fixed replica histories over every backend compared with the in-memory baseline. Construction routes: constructor, URL factory, alternating, relative URL (SQLite), URL with a localhost authority; short-key pass (1-3 character and multi-byte keys).', 'Solid backend excluded (network). Keys ASCII, >= 2 chars; ranged reads non-empty and in range.', 'explicit-state BFS of the real adapters against a reference map', 'DESIGN.md §4 C17', 'A'),
 'C18': ('model_checking', 'Every distinct state of the four scenarios (two-replica array edits, conflict, single first commit, and a cold chain of two stored array patches above a fork with read/reopen as operations) is re-evaluated under rayon pool sizes 2..16, reversed/rotated hash-iteration orders, reversed/rotated listing orders, cache capacities {1,2,16}^2, and every permutation at every single iteration site of 2..4 elements (short histories); views must equal the baseline.', TRUST + 'Real rayon timing is not enumerated here.', BFS + ' + exhaustive configuration sweep per state + preemption-bounded exhaustive schedule exploration', 'DESIGN.md §4 C18', 'H,S'),
 'C19': ('exploration', 'All revisions reachable through the system\'s constructors to a depth bound: purity, print/parse round trip, loader reconstruction, and all ordered triples for the total-order axioms; plus every ordered pair of menu documents applied independently on two replicas (same identifiers, no conflict after sync). Engine H: in every state of conflict / resolution / full-snapshot / time-travel histories every revision of every tree is recomputed from its parent and digest.', TRUST, 'exhaustive enumeration of a constructor-closed revision universe (all triples)', 'DESIGN.md §4 C19', 'P,H'),
 'C11': ('model_checking', 'Storage monitor evaluated on every replica after every transition: content-addressed names (sha256 of bytes, block index = 1 + highest parent index parsed from raw bytes), append-only, byte-identical across replicas, no conflicting write ever issued; plus a commit-metadata sweep melded between replicas. Misnamed-block clause: a source opened on storage holding a valid block under a wrong index is melded into an empty replica - only well-named items may be written.', TRUST, BFS + ' with a storage invariant on every transition', 'DESIGN.md §4 C11', 'H'),
 'C13': ('model_checking', 'At every commit transition: one block whose raw parents are the previous heads, index above every parent, sole head afterwards; in every state: applied blocks ancestor-closed and acyclic, heads == applied blocks not named as parent, get_delta == independently parsed raw file.', TRUST, BFS + ' with a graph invariant on every state and transition', 'DESIGN.md §4 C13', 'H'),
}

def hooks_commits():
    try:
        out = subprocess.check_output(['git', '-C', '/repo', 'log', '--format=%h %s'], text=True)
        return [l.split()[0] for l in out.splitlines() if 'melda_verif' in l]
    except Exception:
        return []

m = {
 'version': 1,
 'setup_cmd': './check --build',
 'hooks': {
  'guard': 'melda_verif (ordered-map shims, re-exports, read-only accessors) and melda_verif_sched (lock / parallel-iterator seam, only used by engine S); both are rustc --cfg flags',
  'enable': "rustc --cfg melda_verif (set through /verif/harness/.cargo/config.toml [build] rustflags; /repo is a path dependency of the harness, so every check rebuilds it from the working tree)",
  'baseline_off_cmd': 'cd /repo && cargo test --workspace --no-fail-fast --offline',
  'source_commits': hooks_commits(),
  'add_only': True,
 },
 'engines': [
  {'name': 'P', 'path': 'harness/src/props (c05, c06, c16, c19, c03 content sweep)', 'serves_properties': sorted(k for k, v in CHECKS.items() if 'P' in v[5].split(',')), 'kind_free_text': 'exhaustive enumeration of pure components (revision trees, merge, diff/patch, revision order) through cfg-gated re-exports'},
  {'name': 'A', 'path': 'harness/src/props/c17.rs', 'serves_properties': ['C17'], 'kind_free_text': 'BFS over adapter operation sequences on every backend against a first-write-wins reference map'},
  {'name': 'F', 'path': 'harness/src/props/c09.rs, c10.rs', 'serves_properties': ['C09', 'C10'], 'kind_free_text': 'crash-prefix, write-failure and corruption enumeration on the instrumented adapter'},
  {'name': 'S', 'path': 'engine_s/ (own crate; compiles /repo/src/*.rs with --cfg melda_verif_sched)', 'serves_properties': ['C08', 'C16', 'C18'], 'kind_free_text': 'stateless exploration of thread schedules (iterative preemption-bounding DFS on the shuttle runtime) of one operation in a prepared state, over the real melda.rs with all locks and parallel iterators routed through controlled shims; oracles: no deadlock, no panic, result equal to the sequential run'},
  {'name': 'H', 'path': 'harness/src/explore.rs', 'serves_properties': sorted(k for k, v in CHECKS.items() if 'H' in v[5].split(',')),
   'kind_free_text': 'explicit-state BFS over operation histories of real Melda replicas on an instrumented in-memory adapter; states deduplicated by a canonical dump of storage, revision trees, stage, block statuses and caches'},
 ],
 'checks': [],
 'notes': 'All checks: ./check <id> --tier quick|thorough; replay: ./check --replay <file>. Known findings: known_findings.json.',
 'not_applicable': [],
}
for pid in ids:
    if pid in CHECKS:
        cat, text, note, tech, ref, eng = CHECKS[pid]
        m['checks'].append({
         'property_id': pid,
         'quick_cmd': f'./check {pid} --tier quick',
         'thorough_cmd': f'./check {pid} --tier thorough',
         'evidence_file': f'/verif/evidence/{pid}.json',
         'replay_cmd_template': './check --replay {path}',
         'engine': eng,
         'level_claimed': {'category': cat, 'text': text, 'design_ref': ref},
         'level_note': note,
         'technique': tech,
        })
    else:
        m['not_applicable'].append({'property_id': pid, 'reason': 'check not built yet (work in progress); planned as bounded exhaustive exploration, see DESIGN.md §4'})
json.dump(m, open(os.path.join(ROOT, 'MANIFEST.json'), 'w'), indent=1, ensure_ascii=False)
print('checks:', len(m['checks']), 'not_applicable:', len(m['not_applicable']))
