#!/usr/bin/env python3
"""Regenerates /verif/MANIFEST.json from the table below (kept in one place so that the manifest is
always valid and in step with the checks that exist)."""
import json, os, subprocess
ROOT = os.path.dirname(os.path.dirname(os.path.abspath(__file__)))
props = [json.loads(l) for l in open(os.path.join(ROOT, 'properties.jsonl'))]
ids = [p['id'] for p in props]

# property -> (category, text, note, technique, design_ref, engine)
CHECKS = {
 'C08': ('model_checking',
         'Explicit-state breadth-first exploration of operation histories over real replicas (2-3 replicas, small document menu); in every distinct state every operation of the full API alphabet is attempted under catch_unwind and a heartbeat watchdog, for several rayon pool sizes. Coverage statement: no operation panics or fails to return in any state reachable within the stated depth.',
         'Trusted: the watchdog threshold (10 s without progress = did not return); real rayon timing is not enumerated (pool sizes are).',
         'bounded exhaustive state-space exploration (BFS with canonical-state deduplication) of the real implementation',
         'DESIGN.md §3.1, §4 C08', 'H'),
}

def hooks_commits():
    try:
        out = subprocess.check_output(['git', '-C', '/repo', 'log', '--format=%h %s'], text=True)
        return [l.split()[0] for l in out.splitlines() if 'melda_verif' in l]
    except Exception:
        return []

m = {
 'version': 1,
 'setup_cmd': './check --build',
 'hooks': {
  'guard': 'melda_verif',
  'enable': "rustc --cfg melda_verif (set through /verif/harness/.cargo/config.toml [build] rustflags; /repo is a path dependency of the harness, so every check rebuilds it from the working tree)",
  'baseline_off_cmd': 'cd /repo && cargo test --workspace --no-fail-fast --offline',
  'source_commits': hooks_commits(),
  'add_only': True,
 },
 'engines': [
  {'name': 'H', 'path': 'harness/src/explore.rs', 'serves_properties': sorted(k for k, v in CHECKS.items() if 'H' in v[5]),
   'kind_free_text': 'explicit-state BFS over operation histories of real Melda replicas on an instrumented in-memory adapter; states deduplicated by a canonical dump of storage, revision trees, stage, block statuses and caches'},
 ],
 'checks': [],
 'notes': 'All checks: ./check <id> --tier quick|thorough; replay: ./check --replay <file>. Known findings: known_findings.json.',
 'not_applicable': [],
}
for pid in ids:
    if pid in CHECKS:
        cat, text, note, tech, ref, eng = CHECKS[pid]
        m['checks'].append({
         'property_id': pid,
         'quick_cmd': f'./check {pid} --tier quick',
         'thorough_cmd': f'./check {pid} --tier thorough',
         'evidence_file': f'/verif/evidence/{pid}.json',
         'replay_cmd_template': './check --replay {path}',
         'engine': eng,
         'level_claimed': {'category': cat, 'text': text, 'design_ref': ref},
         'level_note': note,
         'technique': tech,
        })
    else:
        m['not_applicable'].append({'property_id': pid, 'reason': 'check not built yet (work in progress); planned as bounded exhaustive exploration, see DESIGN.md §4'})
json.dump(m, open(os.path.join(ROOT, 'MANIFEST.json'), 'w'), indent=1, ensure_ascii=False)
print('checks:', len(m['checks']), 'not_applicable:', len(m['not_applicable']))
