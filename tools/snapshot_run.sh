#!/bin/bash
# snapshot_run.sh <dir> : relocated copy of /verif (committed + working files, no build output) and of
# /repo's HEAD under <dir>, so that long (thorough) runs are not disturbed by edits to /repo or /verif.
# Results of such runs are NOT evidence; they only tell whether a tier completes and how long it takes.
set -eu
D="$1"
rm -rf "$D/verif"; mkdir -p "$D"
git -C /repo worktree remove --force "$D/repo" 2>/dev/null || true
git -C /repo worktree add -q --detach "$D/repo" HEAD
cp /repo/Cargo.lock "$D/repo/"
rsync -a --exclude target --exclude replays --exclude .git /verif/ "$D/verif/"
sed -i "s#path = \"/repo\"#path = \"$D/repo\"#" "$D/verif/harness/Cargo.toml"
sed -i "s#/verif/harness/target#$D/verif/harness/target#" "$D/verif/harness/.cargo/config.toml"
sed -i "s#/verif/engine_s/target#$D/verif/engine_s/target#" "$D/verif/engine_s/.cargo/config.toml"
sed -i "s#\"/repo/src/#\"$D/repo/src/#" "$D/verif/engine_s/src/main.rs"
echo "snapshot ready in $D"
