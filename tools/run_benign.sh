#!/bin/bash
# run_benign.sh <name> : applies /verif/benign/<name>/patch.diff (a behaviour-preserving change) to /repo, runs EVERY
# quick check, prints the ones that do not exit 0, and undoes the change. A check that alarms here is a false alarm.
# (RB_REPO / RB_VERIF select a relocated copy made by snapshot_run.sh, to run two lanes in parallel.)
set -u
NAME="$1"
REPO="${RB_REPO:-/repo}"; VERIF="${RB_VERIF:-/verif}"
cd "$REPO" || exit 2
if [ -n "$(git status --porcelain -- src Cargo.toml)" ]; then echo "/repo has uncommitted changes; refusing"; exit 2; fi
git apply /verif/benign/$NAME/patch.diff || { echo "$NAME: patch does not apply"; exit 2; }
BAD=0
for C in C01 C02 C03 C04 C05 C06 C07 C08 C09 C10 C11 C12 C13 C14 C15 C16 C17 C18 C19; do
  OUT=$(MV_NO_EVIDENCE=1 "$VERIF/check" $C --tier quick 2>&1); RC=$?
  if [ $RC -ne 0 ]; then BAD=$((BAD+1)); echo "== $NAME vs $C: exit=$RC"; echo "$OUT" | grep -E "^(VIOLATION|MACHINERY)" | cut -c1-300 | head -3; fi
done
echo "== $NAME: $BAD of 19 checks did not exit 0"
git -C "$REPO" checkout -- src Cargo.toml
