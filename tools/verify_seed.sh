#!/bin/bash
# verify_seed.sh <source OUT dir> <seed id>
# Confirms in a scratch worktree (outside /repo and /verif) that a seeded change compiles, keeps the
# repository's own suite green (32 unit + 30 doc tests), and that its demonstration fails with the
# change and passes without it. Stores patch.diff, the demo, notes and meta.json under /verif/seeded/<id>/.
set -u
SRC="$1"; ID="$2"
WT=/tmp/vseed/$ID
export CARGO_TARGET_DIR=/tmp/vseed/target CARGO_NET_OFFLINE=true
mkdir -p /tmp/vseed
git -C /repo worktree remove --force "$WT" 2>/dev/null
git -C /repo worktree add -q --detach "$WT" HEAD || exit 2
cp /repo/Cargo.lock "$WT/"
DEMO=$(ls "$SRC"/demo_*.rs | head -1); DN=$(basename "$DEMO" .rs)
mkdir -p "$WT/tests"; cp "$DEMO" "$WT/tests/$DN.rs"
cd "$WT"
cargo test --offline ${FEATURES:+--features $FEATURES} --test "$DN" >/tmp/vseed/$ID.clean.log 2>&1; CLEAN=$?
if ! git apply "$SRC/patch.diff"; then echo "$ID: PATCH DOES NOT APPLY"; cd /; git -C /repo worktree remove --force "$WT"; exit 1; fi
cargo test --offline --lib >/tmp/vseed/$ID.unit.log 2>&1; UNIT=$?
cargo test --offline --doc >/tmp/vseed/$ID.doc.log 2>&1; DOC=$?
cargo test --offline ${FEATURES:+--features $FEATURES} --test "$DN" >/tmp/vseed/$ID.mut.log 2>&1; MUT=$?
UNITN=$(grep -E "^test result" /tmp/vseed/$ID.unit.log | head -1)
DOCN=$(grep -E "^test result" /tmp/vseed/$ID.doc.log | head -1)
echo "$ID: demo on unchanged tree exit=$CLEAN (want 0); unit: $UNITN; doc: $DOCN; demo with change exit=$MUT (want != 0)"
cd /
git -C /repo worktree remove --force "$WT"
OK=0
if [ $CLEAN -eq 0 ] && [ $UNIT -eq 0 ] && [ $DOC -eq 0 ] && [ $MUT -ne 0 ]; then OK=1; fi
if [ $OK -eq 1 ]; then
  D=/verif/seeded/$ID; mkdir -p "$D"
  cp "$SRC/patch.diff" "$D/patch.diff"; cp "$DEMO" "$D/"; cp "$SRC/notes.md" "$D/notes.md" 2>/dev/null
  python3 - "$ID" "$UNITN" "$DOCN" "$DN" <<'PY'
import json,sys,os
sid,unit,doc,dn=sys.argv[1:5]
p=f'/verif/seeded/{sid}/meta.json'
meta=json.load(open(p)) if os.path.exists(p) else {}
meta.update({"id":sid,"property":sid.split('-')[0],"origin":"independent sub-agent (given only the property text and a scratch worktree)",
 "verified":{"demo_on_unchanged_tree":"passes","repository_suite_with_change":{"unit":unit,"doc":doc},"demo_with_change":"fails",
  "how":f"tools/verify_seed.sh: scratch worktree of /repo HEAD under /tmp/vseed, cargo test --offline --test {dn} before and after git apply patch.diff, cargo test --lib / --doc with the change"}})
json.dump(meta,open(p,'w'),indent=1,ensure_ascii=False)
PY
  echo "$ID: KEPT in /verif/seeded/$ID"
else
  echo "$ID: REJECTED (see /tmp/vseed/$ID.*.log)"
fi
