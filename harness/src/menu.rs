//! Document / metadata menus and scenario constructors.
use crate::explore::Scenario;
use crate::world::{KeyOpts, Menu, Op};
use serde_json::{json, Value};
use std::sync::Arc;

pub fn x() -> Value {
    json!({"_id":"x","v":1})
}
pub fn x2() -> Value {
    json!({"_id":"x","v":2})
}
pub fn y() -> Value {
    json!({"_id":"y","v":1})
}
pub fn z() -> Value {
    json!({"_id":"z","v":1})
}

/// array-editing documents over the flattened arrays l♭ / m♭
pub fn arr_docs() -> Vec<Value> {
    vec![
        json!({"l♭":[x(), y()]}),            // 0 base
        json!({"l♭":[y(), x()]}),            // 1 swap
        json!({"l♭":[x(), y(), z()]}),       // 2 append z
        json!({"l♭":[y()]}),                 // 3 remove x
        json!({"l♭":[x2(), y()]}),           // 4 edit x
        json!({"l♭":[z(), x(), y()]}),       // 5 prepend z
        json!({"l♭":[y()], "m♭":[x()]}),     // 6 move x to m
        json!({"l♭":[]}),                    // 7 empty
        json!({}),                           // 8 l absent (empty root)
        json!({"l♭":[x(), y()], "s":"t"}),   // 9 root scalar
        json!({"l♭":[x()]}),                 // 10 remove y
        json!({"l♭":[x(), z(), y()]}),       // 11 insert z in the middle
        json!({"s":"a"}),                    // 12 l absent, root scalar a
        json!({"s":"b"}),                    // 13 l absent, root scalar b
        json!({"l♭":[x(), y()], "s":"u"}),   // 14 root scalar u
        json!({"l♭":[{"_id":"x","v":3}, y()]}), // 15 edit x to a value whose digest (ff3a…) sorts above the deletion marker
        json!({"l♭":[{"_id":"x","v":4}, y()]}), // 16 edit x (digest 6502…)
    ]
}

/// documents exercising kinds of flattened values and escaping
pub fn kind_docs() -> Vec<Value> {
    vec![
        json!({"l♭":[x()]}),                                        // 0
        json!({"l♭":{"_id":"x","v":1}}),                            // 1 object in flattened field
        json!({"l♭":{"k":1}}),                                      // 2 id-less object in flattened field
        json!({"l♭":"str"}),                                        // 3 string in flattened field
        json!({"l♭":[{"_id":"x","n♭":[y()]}]}),                     // 4 nested flattened array
        json!({"l♭":[x()], "o♭":{"_id":"y","w♭":{"_id":"z"}}}),     // 5 nested flattened objects
        json!({"s":"!bang", "t":"^caret", "l♭":"!b", "u♭":"^c"}),   // 6 prefix characters in strings
        json!({"l♭":[{"_id":"!x","v":1}, {"_id":"y"}]}),            // 7 element id starting with '!'
        json!({"l♭":5, "n":null, "b":true, "f":1.5, "a":[1,[2,{"q":[]}]]}), // 8 scalars / nesting
        json!({"l♭":[{"_id":"x"}], "e":{}}),                        // 9 empty objects
        json!({"o♭":{"_id":"!x","v":1}}),                           // 10 '!' id in flattened non-array field
        json!({"l♭":[[x()],[y()]]}),                                // 11 nested plain arrays inside a flattened array
        json!({"l♭":["s", 1, null, true, x(), "!e", 2.5]}),         // 12 scalars directly inside a flattened array
        json!({"g♭":[["a","!b"],["^c"],[1,"d",null,["e"]]]}),       // 13 arrays of arrays of strings in a flattened field
        json!({"r♭":[[{"_id":"x","t♭":["p","q"],"n":1}],[2]]}),     // 14 object with its own flattened field inside an inner array
        json!({"l♭":[{"_id":"x","v":"C:\\dir\\"}, {"_id":"y","k\\":"a}{\"b\\"}]}), // 15 strings and keys ending in a backslash, braces and quotes in strings
    ]
}

/// documents whose strings stress the pack scanner and the block serialiser: trailing backslashes (also in a
/// key), braces and quotes inside strings, non-ASCII text
pub fn content_docs() -> Vec<Value> {
    vec![
        json!({"l♭":[{"_id":"x","v":"C:\\dir\\"}, y()]}),
        json!({"l♭":[{"_id":"x","v":"a}{\"b\\"}, y()], "s":"}\\"}),
        json!({"l♭":[{"_id":"x","v":"é✓\\", "k\\":"v"}]}),
        json!({"l♭":[y()]}),
        json!({"l♭":[{"_id":"x","v":"\\\\"}, {"_id":"z","v":"\"\\\""}]}),
    ]
}

pub fn infos() -> Vec<Option<Value>> {
    vec![
        None,
        Some(json!({"author":"a","n":1})),
        Some(json!({"author":"b","nested":{"k":[1,2.5,"\"q\\"]}})),
        Some(json!({})),
    ]
}

pub fn menu(docs: Vec<Value>) -> Arc<Menu> {
    Arc::new(Menu {
        docs,
        infos: infos(),
    })
}

fn pick(docs: &[Value], idx: &[usize]) -> Vec<Value> {
    idx.iter().map(|&i| docs[i].clone()).collect()
}

/// Two replicas sharing a first commit, then concurrent edits / commits / syncs / resolutions.
pub fn pair_scenario(name: &str, doc_idx: &[usize], depth: usize, extra: &[Op]) -> Scenario {
    let all = arr_docs();
    // menu: doc 0 = base, then the selected ones
    let mut docs = vec![all[0].clone()];
    docs.extend(pick(&all, doc_idx));
    let n = docs.len();
    let mut alphabet = vec![];
    for r in 0..2 {
        for d in 1..n {
            alphabet.push(Op::Upd(r, d));
        }
        alphabet.push(Op::Commit(r, 0));
    }
    alphabet.push(Op::Sync(0, 1));
    alphabet.push(Op::Sync(1, 0));
    alphabet.extend_from_slice(extra);
    Scenario {
        name: name.to_string(),
        nrep: 2,
        menu: menu(docs),
        prologue: vec![Op::Upd(0, 0), Op::Commit(0, 0), Op::Sync(1, 0)],
        alphabet,
        key_opts: KeyOpts::default(),
        max_depth: depth,
        track: false,
        order: None,
    }
}

/// Like pair_scenario, but the prologue already contains one concurrent committed edit on each
/// replica (documents a on replica 0, b on replica 1; indexes into arr_docs) and a sync 1<-0, so
/// that replica 1 starts in conflict.
pub fn pair_conflict_scenario(
    name: &str,
    a: usize,
    b: usize,
    doc_idx: &[usize],
    depth: usize,
    extra: &[Op],
) -> Scenario {
    let all = arr_docs();
    let mut sc = pair_scenario(name, doc_idx, depth, extra);
    let mut docs = sc.menu.docs.clone();
    docs.push(all[a].clone());
    let ia = docs.len() - 1;
    docs.push(all[b].clone());
    let ib = docs.len() - 1;
    sc.menu = menu(docs);
    sc.prologue.extend_from_slice(&[
        Op::Upd(0, ia),
        Op::Commit(0, 0),
        Op::Upd(1, ib),
        Op::Commit(1, 0),
        Op::Sync(1, 0),
    ]);
    sc
}

/// Single replica: updates, commits, unstage, snapshot, stage round trip, reload
pub fn single_scenario(name: &str, docs: Vec<Value>, depth: usize, extra: &[Op]) -> Scenario {
    let n = docs.len();
    let mut alphabet = vec![];
    for d in 0..n {
        alphabet.push(Op::Upd(0, d));
    }
    alphabet.push(Op::Commit(0, 0));
    alphabet.extend_from_slice(extra);
    Scenario {
        name: name.to_string(),
        nrep: 1,
        menu: menu(docs),
        prologue: vec![],
        alphabet,
        key_opts: KeyOpts::default(),
        max_depth: depth,
        track: false,
        order: None,
    }
}

/// Three replicas, shared first commit, one fixed edit each, then only commit/sync/resolve
pub fn trio_scenario(name: &str, depth: usize) -> Scenario {
    let all = arr_docs();
    let docs = vec![
        all[0].clone(),
        all[2].clone(),
        all[3].clone(),
        all[5].clone(),
        all[4].clone(),
    ];
    let mut alphabet = vec![];
    for r in 0..3 {
        alphabet.push(Op::Upd(r, 1 + r));
        alphabet.push(Op::Commit(r, 0));
        for s in 0..3 {
            if s != r {
                alphabet.push(Op::Sync(r, s));
            }
        }
    }
    Scenario {
        name: name.to_string(),
        nrep: 3,
        menu: menu(docs),
        prologue: vec![
            Op::Upd(0, 0),
            Op::Commit(0, 0),
            Op::Sync(1, 0),
            Op::Sync(2, 0),
        ],
        alphabet,
        key_opts: KeyOpts::default(),
        max_depth: depth,
        track: false,
        order: None,
    }
}

/// appends operations to the prologue of a scenario ("start from non-initial states")
pub fn with_prologue(mut sc: Scenario, name: &str, extra: &[Op]) -> Scenario {
    sc.name = name.to_string();
    sc.prologue.extend_from_slice(extra);
    sc
}

/// Two replicas; replica 0 has edited element x eight times (revision index 9; the next edit reaches 10), replica 1
/// once, concurrently: exercises the numeric (not textual) comparison of revision indexes.
pub fn long_chain_scenario(name: &str, depth: usize, extra: &[Op]) -> Scenario {
    let mut docs = vec![json!({"l♭":[x(), y()]})];
    for k in 0..9 {
        docs.push(json!({"l♭":[{"_id":"x","v":10 + k}, y()]}));
    }
    docs.push(json!({"l♭":[{"_id":"x","v":99}, y()]})); // 10: replica 1's concurrent edit
    docs.push(json!({"l♭":[{"_id":"x","v":7}, y(), z()]})); // 11
    docs.push(json!({"l♭":[y()]})); // 12
    let mut prologue = vec![Op::Upd(0, 0), Op::Commit(0, 0), Op::Sync(1, 0)];
    // eight edits: x is at revision index 9 on replica 0; one more edit crosses to two digits
    for k in 0..8 {
        prologue.push(Op::Upd(0, 1 + k));
        if k % 3 == 2 {
            prologue.push(Op::Commit(0, 0));
        }
    }
    prologue.push(Op::Commit(0, 0));
    prologue.extend_from_slice(&[Op::Upd(1, 10), Op::Commit(1, 0)]);
    let mut alphabet = vec![Op::Sync(0, 1), Op::Sync(1, 0), Op::Upd(0, 11), Op::Upd(1, 11), Op::Upd(1, 12), Op::Commit(0, 0), Op::Commit(1, 0)];
    alphabet.extend_from_slice(extra);
    Scenario {
        name: name.to_string(),
        nrep: 2,
        menu: menu(docs),
        prologue,
        alphabet,
        key_opts: KeyOpts::default(),
        max_depth: depth,
        track: false,
        order: None,
    }
}

/// Two replicas whose block graph already holds origin <- shared second commit <- two concurrent
/// commits (a diamond is one commit away); replica 0 has melded and refreshed both branches.
pub fn diamond_scenario(name: &str, doc_idx: &[usize], depth: usize, extra: &[Op]) -> Scenario {
    let sc = pair_scenario(name, doc_idx, depth, extra);
    let all = arr_docs();
    let mut docs = sc.menu.docs.clone();
    let base = docs.len();
    docs.push(all[9].clone()); // shared second commit: root scalar
    docs.push(all[2].clone()); // branch a: append z
    docs.push(all[3].clone()); // branch b: remove x
    let mut sc = sc;
    sc.menu = menu(docs);
    sc.prologue.extend_from_slice(&[
        Op::Upd(0, base),
        Op::Commit(0, 0),
        Op::Sync(1, 0),
        Op::Upd(0, base + 1),
        Op::Commit(0, 0),
        Op::Upd(1, base + 2),
        Op::Commit(1, 0),
        Op::Sync(0, 1),
    ]);
    sc
}

/// The winner branch has two edit scripts after the fork, the loser one positional insert; replica 1
/// receives both of replica 0's versions at once (cold reconstruction cache for that chain).
pub fn two_patch_scenario(name: &str, depth: usize, extra: &[Op]) -> Scenario {
    let e = |id: &str| json!({"_id": id, "v": 1});
    let docs = vec![
        json!({"l♭":[e("a"), e("b"), e("c")]}),
        json!({"l♭":[e("n"), e("a"), e("b"), e("c")]}),
        json!({"l♭":[e("n"), e("a"), e("b"), e("c"), e("m")]}),
        json!({"l♭":[e("a"), e("w"), e("b"), e("c")]}),
        json!({"l♭":[e("c"), e("a"), e("b")]}),
    ];
    let mut alphabet = vec![Op::Sync(1, 0), Op::Sync(0, 1), Op::Reopen(0), Op::Reopen(1), Op::Upd(1, 4), Op::Commit(1, 0), Op::Upd(0, 4), Op::Commit(0, 0)];
    alphabet.extend_from_slice(extra);
    Scenario {
        name: name.to_string(),
        nrep: 2,
        menu: menu(docs),
        prologue: vec![Op::Upd(0, 0), Op::Commit(0, 0), Op::Sync(1, 0), Op::Upd(0, 1), Op::Commit(0, 0), Op::Upd(0, 2), Op::Commit(0, 0), Op::Upd(1, 3), Op::Commit(1, 0)],
        alphabet,
        key_opts: KeyOpts::default(),
        max_depth: depth,
        track: false,
        order: None,
    }
}

/// Two replicas that edited x differently and then both set it to the same value: two leaves with the
/// same index and digest but different parents (the order must still tell them apart).
pub fn tie_scenario(name: &str, depth: usize, extra: &[Op]) -> Scenario {
    let xv = |v: u32| json!({"l♭":[{"_id":"x","v":v}, y()]});
    let docs = vec![xv(1), xv(2), xv(3), xv(4), json!({"l♭":[y()]}), json!({"l♭":[{"_id":"x","v":4}, y(), z()]})];
    let mut alphabet = vec![Op::Sync(1, 0), Op::Sync(0, 1), Op::Upd(0, 5), Op::Upd(1, 5), Op::Commit(0, 0), Op::Commit(1, 0), Op::Reopen(0)];
    alphabet.extend_from_slice(extra);
    Scenario {
        name: name.to_string(),
        nrep: 2,
        menu: menu(docs),
        prologue: vec![Op::Upd(0, 0), Op::Commit(0, 0), Op::Sync(1, 0), Op::Upd(0, 1), Op::Commit(0, 0), Op::Upd(1, 2), Op::Commit(1, 0), Op::Upd(0, 3), Op::Commit(0, 0), Op::Upd(1, 3), Op::Commit(1, 0)],
        alphabet,
        key_opts: KeyOpts::default(),
        max_depth: depth,
        track: false,
        order: None,
    }
}

/// Replica 0 emptied the flattened array (the field stays, as []) in one or two commits while replica 1
/// inserted an element; with two commits the EMPTY version is the winning leaf of the descriptor.
pub fn emptied_scenario(name: &str, steps: usize, depth: usize, extra: &[Op]) -> Scenario {
    let docs = vec![
        json!({"l♭":[x(), y()]}),
        json!({"l♭":[y()]}),
        json!({"l♭":[]}),
        json!({"l♭":[x(), y(), z()]}),
        json!({"l♭":[z(), x(), y()]}),
        json!({"l♭":[{"_id":"w","v":1}]}),
    ];
    let mut prologue = vec![Op::Upd(0, 0), Op::Commit(0, 0), Op::Sync(1, 0)];
    if steps > 1 {
        prologue.extend_from_slice(&[Op::Upd(0, 1), Op::Commit(0, 0)]);
    }
    prologue.extend_from_slice(&[Op::Upd(0, 2), Op::Commit(0, 0), Op::Upd(1, 3), Op::Commit(1, 0)]);
    let mut alphabet = vec![Op::Sync(1, 0), Op::Sync(0, 1), Op::Commit(0, 0), Op::Commit(1, 0), Op::Upd(1, 4), Op::Upd(0, 5), Op::Reopen(0), Op::Resolve(1, 0, 0), Op::Resolve(1, 0, 1)];
    alphabet.extend_from_slice(extra);
    Scenario {
        name: name.to_string(),
        nrep: 2,
        menu: menu(docs),
        prologue,
        alphabet,
        key_opts: KeyOpts::default(),
        max_depth: depth,
        track: false,
        order: None,
    }
}

/// Replica 0 removed the flattened array from the document (its descriptor object is deleted), replica 1
/// edited the array once or twice meanwhile (so the deletion is the losing or a tying leaf), then received
/// replica 0's block: the descriptor is in conflict between a live leaf and a deletion leaf.
pub fn array_deleted_scenario(name: &str, edits: usize, depth: usize, extra: &[Op]) -> Scenario {
    let docs = vec![
        json!({"l♭":[x(), y()]}),
        json!({"s":"a"}),
        json!({"l♭":[x(), y(), z()]}),
        json!({"l♭":[z(), x(), y()]}),
        json!({"l♭":[y(), z()]}),
        json!({"l♭":[x(), y()], "s":"b"}),
    ];
    let mut prologue = vec![Op::Upd(0, 0), Op::Commit(0, 0), Op::Sync(1, 0), Op::Upd(0, 1), Op::Commit(0, 0), Op::Upd(1, 2), Op::Commit(1, 0)];
    if edits > 1 {
        prologue.extend_from_slice(&[Op::Upd(1, 3), Op::Commit(1, 0)]);
    }
    prologue.push(Op::Sync(1, 0));
    let mut alphabet = vec![Op::Commit(1, 0), Op::Sync(0, 1), Op::Upd(1, 4), Op::Upd(0, 5), Op::Commit(0, 0), Op::Reopen(1), Op::Unstage(1)];
    for j in 0..2 {
        for k in 0..2 {
            alphabet.push(Op::Resolve(1, j, k));
        }
    }
    alphabet.extend_from_slice(extra);
    Scenario {
        name: name.to_string(),
        nrep: 2,
        menu: menu(docs),
        prologue,
        alphabet,
        key_opts: KeyOpts::default(),
        max_depth: depth,
        track: false,
        order: None,
    }
}

/// Three replicas: replicas 0 and 1 committed concurrently, replica 1 merged and committed a block with
/// two parents; replica 2 still holds only the shared first commit.
pub fn trio_merge_scenario(name: &str, depth: usize, extra: &[Op]) -> Scenario {
    let mut sc = trio_scenario(name, depth);
    sc.prologue.extend_from_slice(&[
        Op::Upd(0, 1),
        Op::Commit(0, 0),
        Op::Upd(1, 2),
        Op::Commit(1, 0),
        Op::Sync(1, 0),
        Op::ObjPut(1, 1),
        Op::Commit(1, 1),
    ]);
    sc.alphabet = vec![Op::Meld(2, 1), Op::Sync(2, 1), Op::Sync(2, 0), Op::Sync(0, 1), Op::Upd(2, 3), Op::Commit(2, 0), Op::Refresh(2)];
    sc.alphabet.extend_from_slice(extra);
    sc
}

/// Two replicas after eleven commits by replica 0 (block indexes cross from one to two digits) that
/// replica 1 has only partly received (it synced after the ninth).
pub fn many_commits_scenario(name: &str, depth: usize, extra: &[Op]) -> Scenario {
    let a = arr_docs();
    let docs = vec![a[0].clone(), a[2].clone(), a[1].clone(), a[3].clone(), a[9].clone()];
    let mut prologue = vec![];
    for k in 0..11 {
        prologue.push(Op::Upd(0, [0, 1, 2, 1][k % 4]));
        prologue.push(Op::Commit(0, k % 3));
        if k == 8 {
            prologue.push(Op::Sync(1, 0));
        }
    }
    let mut alphabet = vec![Op::Sync(1, 0), Op::Sync(0, 1), Op::Upd(1, 3), Op::Commit(1, 0), Op::Upd(0, 4), Op::Commit(0, 1), Op::Reopen(0), Op::Reopen(1)];
    alphabet.extend_from_slice(extra);
    Scenario {
        name: name.to_string(),
        nrep: 2,
        menu: menu(docs),
        prologue,
        alphabet,
        key_opts: KeyOpts::default(),
        max_depth: depth,
        track: false,
        order: None,
    }
}

/// Two heads whose indexes have a different number of digits (9 and 10): replica 1 branched off at block 8 and
/// committed once, replica 0 committed twice more and then received replica 1's block.
pub fn uneven_heads_scenario(name: &str, depth: usize, extra: &[Op]) -> Scenario {
    let a = arr_docs();
    let docs = vec![a[0].clone(), a[2].clone(), a[1].clone(), a[3].clone(), a[9].clone()];
    let mut prologue = vec![];
    for k in 0..8 {
        prologue.push(Op::Upd(0, [0, 1, 2, 1][k % 4]));
        prologue.push(Op::Commit(0, 0));
    }
    prologue.extend_from_slice(&[Op::Sync(1, 0), Op::Upd(1, 3), Op::Commit(1, 0), Op::Upd(0, 0), Op::Commit(0, 0), Op::Upd(0, 1), Op::Commit(0, 0), Op::Sync(0, 1)]);
    let mut alphabet = vec![Op::Upd(0, 4), Op::Commit(0, 1), Op::Sync(1, 0), Op::Reopen(0), Op::Reopen(1), Op::Upd(1, 4), Op::Commit(1, 0), Op::Resolve(0, 0, 0)];
    alphabet.extend_from_slice(extra);
    Scenario {
        name: name.to_string(),
        nrep: 2,
        menu: menu(docs),
        prologue,
        alphabet,
        key_opts: KeyOpts::default(),
        max_depth: depth,
        track: false,
        order: None,
    }
}

/// Three replicas edited the same element and the same array differently; replica 0 has received both
/// other branches: objects with THREE live leaves.
pub fn three_leaves_scenario(name: &str, depth: usize, extra: &[Op]) -> Scenario {
    let xv = |v: u32| json!({"_id":"x","v":v});
    let docs = vec![
        json!({"l♭":[x(), y()]}),
        json!({"l♭":[xv(2), y(), z()]}),
        json!({"l♭":[y(), xv(3)]}),
        json!({"l♭":[xv(4)]}),
        json!({"l♭":[xv(5), y()]}),
    ];
    let mut alphabet = vec![Op::Commit(0, 1), Op::Sync(1, 0), Op::Sync(2, 0), Op::Sync(0, 1), Op::Upd(0, 4), Op::Reopen(1)];
    for j in 0..2 {
        for k in 0..3 {
            alphabet.push(Op::Resolve(0, j, k));
        }
    }
    alphabet.extend_from_slice(extra);
    Scenario {
        name: name.to_string(),
        nrep: 3,
        menu: menu(docs),
        prologue: vec![
            Op::Upd(0, 0), Op::Commit(0, 0), Op::Sync(1, 0), Op::Sync(2, 0),
            Op::Upd(0, 1), Op::Commit(0, 0), Op::Upd(1, 2), Op::Commit(1, 0), Op::Upd(2, 3), Op::Commit(2, 0),
            Op::Sync(0, 1), Op::Sync(0, 2),
        ],
        alphabet,
        key_opts: KeyOpts::default(),
        max_depth: depth,
        track: false,
        order: None,
    }
}

/// Two branches that each made a private edit (own block) and then the IDENTICAL edit of x from the
/// same revision (own block): two different blocks carrying exactly the same revision.
pub fn same_edit_scenario(name: &str, depth: usize, extra: &[Op]) -> Scenario {
    let e = |id: &str, v: u32| json!({"_id": id, "v": v});
    let docs = vec![
        json!({"l♭":[e("x",1), e("y",1), e("z",1)]}),
        json!({"l♭":[e("x",1), e("y",2), e("z",1)]}),
        json!({"l♭":[e("x",4), e("y",2), e("z",1)]}),
        json!({"l♭":[e("x",1), e("y",1), e("z",2)]}),
        json!({"l♭":[e("x",4), e("y",1), e("z",2)]}),
        json!({"l♭":[e("x",4), e("y",2), e("z",2), e("w",1)]}),
    ];
    let mut alphabet = vec![Op::Sync(0, 1), Op::Sync(1, 0), Op::Upd(0, 5), Op::Commit(0, 0), Op::Reload(0), Op::Reopen(1)];
    alphabet.extend_from_slice(extra);
    Scenario {
        name: name.to_string(),
        nrep: 2,
        menu: menu(docs),
        prologue: vec![
            Op::Upd(0, 0), Op::Commit(0, 0), Op::Sync(1, 0),
            Op::Upd(0, 1), Op::Commit(0, 0), Op::Upd(0, 2), Op::Commit(0, 1),
            Op::Upd(1, 3), Op::Commit(1, 0), Op::Upd(1, 4), Op::Commit(1, 1),
        ],
        alphabet,
        key_opts: KeyOpts::default(),
        max_depth: depth,
        track: false,
        order: None,
    }
}

/// Elements that own nested flattened arrays; the two replicas concurrently move each element into the
/// other one's nested array (containment becomes cyclic after the merge).
pub fn mutual_move_scenario(name: &str, depth: usize, extra: &[Op]) -> Scenario {
    let el = |id: &str, sub: Vec<Value>| json!({"_id": id, "sub♭": sub});
    let docs = vec![
        json!({"items♭":[el("X", vec![]), el("Y", vec![])]}),
        json!({"items♭":[el("Y", vec![el("X", vec![])])]}),
        json!({"items♭":[el("X", vec![el("Y", vec![])])]}),
        json!({"items♭":[el("X", vec![]), el("Y", vec![]), el("Z", vec![])]}),
        json!({"items♭":[el("Y", vec![]), el("X", vec![el("Z", vec![])])]}),
    ];
    let mut alphabet = vec![Op::Sync(0, 1), Op::Sync(1, 0), Op::Upd(0, 3), Op::Upd(1, 4), Op::Commit(0, 0), Op::Commit(1, 0), Op::Reopen(0)];
    alphabet.extend_from_slice(extra);
    Scenario {
        name: name.to_string(),
        nrep: 2,
        menu: menu(docs),
        prologue: vec![Op::Upd(0, 0), Op::Commit(0, 0), Op::Sync(1, 0), Op::Upd(0, 1), Op::Commit(0, 0), Op::Upd(1, 2), Op::Commit(1, 0)],
        alphabet,
        key_opts: KeyOpts::default(),
        max_depth: depth,
        track: false,
        order: None,
    }
}

/// One author: three commits, the last one introduces element z; after time travel back to the first
/// commit the author re-submits z (same content: de-duplicated against the pack of the abandoned branch)
/// together with a new value. Replica 1 and fresh replicas receive subsets of the author's items.
pub fn travel_reuse_scenario(name: &str, depth: usize, extra: &[Op]) -> Scenario {
    let docs = vec![
        json!({"l♭":[x(), y()]}),
        json!({"l♭":[x2(), y()]}),
        json!({"l♭":[x2(), y(), z()]}),
        json!({"l♭":[x(), y(), z()], "s":"t"}),
        json!({"l♭":[y(), z()]}),
    ];
    let mut alphabet = vec![Op::Travel(0, 0), Op::Travel(0, 1), Op::Upd(0, 3), Op::Upd(0, 4), Op::Commit(0, 0), Op::Sync(1, 0), Op::Reload(0)];
    alphabet.extend_from_slice(extra);
    let mut sc = Scenario {
        name: name.to_string(),
        nrep: 2,
        menu: menu(docs),
        prologue: vec![Op::Upd(0, 0), Op::Commit(0, 0), Op::Sync(1, 0), Op::Upd(0, 1), Op::Commit(0, 0), Op::Upd(0, 2), Op::Commit(0, 1)],
        alphabet,
        key_opts: KeyOpts::default(),
        max_depth: depth,
        track: false,
        order: None,
    };
    sc.key_opts.heads = true;
    sc
}

/// Three replicas with a relay: replica 1 may receive replica 0's block files without their packs (plain
/// file copy in flight) and refresh; replica 2 melds from the relay and later exchanges with replica 0.
pub fn relay_scenario(name: &str, depth: usize, extra: &[Op]) -> Scenario {
    let a = arr_docs();
    let docs = vec![a[0].clone(), a[2].clone(), a[3].clone()];
    let mut alphabet = vec![Op::Upd(0, 1), Op::Upd(0, 2), Op::Commit(0, 0), Op::CopyDeltas(1, 0), Op::Refresh(1), Op::Sync(2, 1), Op::Sync(2, 0), Op::Sync(1, 0), Op::Sync(0, 2)];
    alphabet.extend_from_slice(extra);
    Scenario {
        name: name.to_string(),
        nrep: 3,
        menu: menu(docs),
        prologue: vec![Op::Upd(0, 0), Op::Commit(0, 0), Op::Sync(1, 0), Op::Sync(2, 0)],
        alphabet,
        key_opts: KeyOpts::default(),
        max_depth: depth,
        track: false,
        order: None,
    }
}

/// The cross product "every prologue x every probe": each prologue scenario of this file with a universal
/// alphabet (edits, commits with and without metadata, discard, snapshot, low-level edits, reopen, reload,
/// refresh, time travel, resolutions, stage round trip, sync / meld / block-only copies between all
/// replicas), explored to a small depth. Every engine-H property adds these to its own scenarios, so a
/// state shape introduced for one property is seen by the oracles of all the others.
// ---------------------------------------------------------------------------------------------------
// "Unusual combination" scenarios (added after round 10 of the seeded changes): small alphabets of operations
// that ordinary use rarely chains, explored deep from a prepared state.

/// A flattened array (string elements when `strings`, tracked objects otherwise) in conflict on replica 1;
/// then snapshot / discard / edit / commit / time travel / reopen in every order.
pub fn snapshot_conflict_scenario(name: &str, strings: bool, depth: usize, extra: &[Op]) -> Scenario {
    let docs = if strings {
        vec![json!({"l♭":["a","b","c"]}), json!({"l♭":["a","b","c","x"]}), json!({"l♭":["y","a","b","c"]}), json!({"l♭":["b","c","x"]}), json!({"l♭":["a","c"]})]
    } else {
        vec![json!({"l♭":[x(), y()]}), json!({"l♭":[x(), y(), z()]}), json!({"l♭":[{"_id":"w","v":1}, x(), y()]}), json!({"l♭":[y(), z()]}), json!({"l♭":[x()]})]
    };
    let mut alphabet = vec![Op::Snapshot(1), Op::Unstage(1), Op::Upd(1, 3), Op::Upd(1, 4), Op::Commit(1, 0), Op::Reopen(1), Op::Travel(1, 0), Op::Travel(1, 1), Op::Reload(1), Op::Sync(0, 1)];
    alphabet.extend_from_slice(extra);
    let mut sc = Scenario {
        name: name.to_string(),
        nrep: 2,
        menu: menu(docs),
        prologue: vec![Op::Upd(0, 0), Op::Commit(0, 0), Op::Sync(1, 0), Op::Upd(0, 1), Op::Commit(0, 0), Op::Upd(1, 2), Op::Commit(1, 0), Op::Sync(1, 0)],
        alphabet,
        key_opts: KeyOpts::default(),
        max_depth: depth,
        track: true,
        order: None,
    };
    sc.key_opts.heads = true;
    sc.key_opts.acache = true;
    sc
}

/// Stage export / commit / replay of the export (on the same replica and on the other one) / further edit /
/// discard, in every order.
pub fn replay_after_commit_scenario(name: &str, depth: usize, extra: &[Op]) -> Scenario {
    let docs = vec![json!({"l♭":[x(), y()]}), json!({"l♭":[x2(), y(), z()]}), json!({"l♭":[{"_id":"x","v":3}, y(), z()]}), json!({"l♭":[y()]})];
    let mut alphabet = vec![Op::Upd(0, 1), Op::Upd(0, 2), Op::StageSave(0), Op::Commit(0, 0), Op::StageReplay(0), Op::Unstage(0), Op::Sync(1, 0), Op::StageReplayFrom(1, 0), Op::Upd(1, 2), Op::Unstage(1), Op::Reopen(0)];
    alphabet.extend_from_slice(extra);
    Scenario {
        name: name.to_string(),
        nrep: 2,
        menu: menu(docs),
        prologue: vec![Op::Upd(0, 0), Op::Commit(0, 0), Op::Sync(1, 0)],
        alphabet,
        key_opts: KeyOpts::default(),
        max_depth: depth,
        track: true,
        order: None,
    }
}

/// History v1, v2, v1 (the third block reverts the second); then time travel and commits that may re-create a
/// block that already exists in storage, byte for byte.
pub fn travel_identical_scenario(name: &str, depth: usize, extra: &[Op]) -> Scenario {
    let docs = vec![json!({"l♭":[x(), y()]}), json!({"l♭":[x2(), y()]}), json!({"l♭":[{"_id":"x","v":3}, y()]})];
    let mut alphabet = vec![Op::Travel(0, 0), Op::Travel(0, 1), Op::Upd(0, 0), Op::Upd(0, 1), Op::Upd(0, 2), Op::Commit(0, 0), Op::Commit(0, 1), Op::Reload(0), Op::Reopen(0), Op::Refresh(0)];
    alphabet.extend_from_slice(extra);
    let mut sc = Scenario {
        name: name.to_string(),
        nrep: 1,
        menu: menu(docs),
        prologue: vec![Op::Upd(0, 0), Op::Commit(0, 0), Op::Upd(0, 1), Op::Commit(0, 0), Op::Upd(0, 0), Op::Commit(0, 0)],
        alphabet,
        key_opts: KeyOpts::default(),
        max_depth: depth,
        track: true,
        order: None,
    };
    sc.key_opts.heads = true;
    sc
}

/// Discard and redo: staged changes are thrown away (unstage, remove_object, reload) and the same content is
/// submitted again; an unrelated object is given exactly the content of an array element.
pub fn discard_redo_scenario(name: &str, depth: usize, extra: &[Op]) -> Scenario {
    let docs = vec![json!({"l♭":[x(), y()]}), json!({"l♭":[x(), y(), {"_id":"z","v":7}]}), json!({"l♭":[{"_id":"x","v":7}, y()]})];
    let mut alphabet = vec![Op::Upd(0, 1), Op::Upd(0, 2), Op::Unstage(0), Op::Commit(0, 0), Op::Reopen(0), Op::ObjPut(0, 107), Op::ObjRemove(0, 0), Op::Reload(0), Op::Sync(1, 0)];
    alphabet.extend_from_slice(extra);
    Scenario {
        name: name.to_string(),
        nrep: 2,
        menu: menu(docs),
        prologue: vec![Op::Upd(0, 0), Op::Commit(0, 0), Op::Sync(1, 0)],
        alphabet,
        key_opts: KeyOpts::default(),
        max_depth: depth,
        track: true,
        order: None,
    }
}

/// Replica 1 holds replica 0's block without its pack (plain copy of the block file, refreshed: held back); what
/// the block waits for may then be supplied by replica 1's OWN commit of the same edit.
pub fn local_supply_scenario(name: &str, depth: usize, extra: &[Op]) -> Scenario {
    let docs = vec![json!({"l♭":[x(), y()]}), json!({"l♭":[x(), y(), z()]}), json!({"l♭":[x2(), y()]})];
    let mut alphabet = vec![Op::Upd(1, 1), Op::Upd(1, 2), Op::Commit(1, 0), Op::Commit(1, 1), Op::Refresh(1), Op::Sync(0, 1), Op::CopyAll(1, 0), Op::Reopen(1)];
    alphabet.extend_from_slice(extra);
    Scenario {
        name: name.to_string(),
        nrep: 2,
        menu: menu(docs),
        prologue: vec![Op::Upd(0, 0), Op::Commit(0, 0), Op::Sync(1, 0), Op::Upd(0, 1), Op::Commit(0, 0), Op::CopyDeltas(1, 0), Op::Refresh(1)],
        alphabet,
        key_opts: KeyOpts::default(),
        max_depth: depth,
        track: true,
        order: None,
    }
}

/// A line A -> B -> C with a commit at each hop: B and C hold the same array conflict, each commits its own
/// further change (which also resolves that conflict automatically: two different blocks carrying the same
/// revisions), then the ring is closed.
pub fn ring_scenario(name: &str, depth: usize, extra: &[Op]) -> Scenario {
    let a = arr_docs();
    let docs = vec![a[0].clone(), a[2].clone(), a[5].clone(), a[9].clone()];
    let mut alphabet = vec![Op::Sync(0, 1), Op::Sync(0, 2), Op::Sync(1, 2), Op::Sync(2, 1), Op::Sync(1, 0), Op::Sync(2, 0), Op::Reopen(0), Op::Reopen(1), Op::CopyAll(0, 2)];
    alphabet.extend_from_slice(extra);
    Scenario {
        name: name.to_string(),
        nrep: 3,
        menu: menu(docs),
        prologue: vec![
            Op::Upd(0, 0), Op::Commit(0, 0), Op::Sync(1, 0), Op::Sync(2, 1),
            Op::Upd(0, 1), Op::Commit(0, 0), Op::Upd(1, 2), Op::Commit(1, 0),
            Op::Sync(1, 0), Op::Sync(2, 1),
            Op::ObjPut(1, 1), Op::Commit(1, 0), Op::ObjPut(2, 2), Op::Commit(2, 0),
        ],
        alphabet,
        key_opts: KeyOpts::default(),
        max_depth: depth,
        track: true,
        order: None,
    }
}

/// Documents that alternate (A, B, A, B ...) with and without commits: objects and arrays return to an earlier
/// content (same digest at a higher index), an element leaves and re-enters the array.
pub fn alternating_scenario(name: &str, depth: usize, extra: &[Op]) -> Scenario {
    let docs = vec![json!({"l♭":[x(), y()], "s":"a"}), json!({"l♭":[x2(), z()], "s":"b"}), json!({"l♭":[y(), x()], "s":"a"})];
    let mut alphabet = vec![Op::Upd(0, 0), Op::Upd(0, 1), Op::Upd(0, 2), Op::Commit(0, 0), Op::Reopen(0), Op::Unstage(0), Op::Sync(1, 0), Op::Travel(0, 0)];
    alphabet.extend_from_slice(extra);
    let mut sc = Scenario {
        name: name.to_string(),
        nrep: 2,
        menu: menu(docs),
        prologue: vec![Op::Upd(0, 0), Op::Commit(0, 0), Op::Sync(1, 0), Op::Upd(0, 1), Op::Commit(0, 0)],
        alphabet,
        key_opts: KeyOpts::default(),
        max_depth: depth,
        track: true,
        order: None,
    };
    sc.key_opts.heads = true;
    sc
}

/// Two levels of flattening: element x carries an inner flattened array. Replica 0 edits the inner array while
/// replica 1 moves x, deletes x, or edits the inner array differently.
pub fn nested_conflict_scenario(name: &str, depth: usize, extra: &[Op]) -> Scenario {
    let inner = |v: Vec<Value>| json!({"_id":"x","v":1,"n♭":v});
    let docs = vec![
        json!({"l♭":[inner(vec![z()]), y()]}),
        json!({"l♭":[inner(vec![z(), json!({"_id":"w","v":1})]), y()]}),
        json!({"l♭":[y(), inner(vec![z()])]}),
        json!({"l♭":[y()]}),
        json!({"l♭":[inner(vec![json!({"_id":"u","v":1}), z()]), y()]}),
        json!({"l♭":[y()], "m♭":[inner(vec![z()])]}),
    ];
    let mut alphabet = vec![Op::Upd(0, 1), Op::Commit(0, 0), Op::Upd(1, 2), Op::Upd(1, 3), Op::Upd(1, 4), Op::Upd(1, 5), Op::Commit(1, 0), Op::Sync(0, 1), Op::Sync(1, 0), Op::Reopen(1)];
    for j in 0..2 {
        for k in 0..2 {
            alphabet.push(Op::Resolve(1, j, k));
        }
    }
    alphabet.extend_from_slice(extra);
    Scenario {
        name: name.to_string(),
        nrep: 2,
        menu: menu(docs),
        prologue: vec![Op::Upd(0, 0), Op::Commit(0, 0), Op::Sync(1, 0)],
        alphabet,
        key_opts: KeyOpts::default(),
        max_depth: depth,
        track: true,
        order: None,
    }
}

/// An object without identifier in a flattened NON-array field (its identifier is generated from the path): its
/// content changes on both replicas, and the field changes kind.
pub fn idless_field_scenario(name: &str, depth: usize, extra: &[Op]) -> Scenario {
    let docs = vec![
        json!({"o♭":{"k":1}, "l♭":[x()]}),
        json!({"o♭":{"k":2}, "l♭":[x()]}),
        json!({"o♭":{"k":3,"q♭":{"r":1}}, "l♭":[x()]}),
        json!({"o♭":[{"k":1}], "l♭":[x()]}),
        json!({"o♭":"s", "l♭":[x()]}),
        json!({"l♭":[x()], "p♭":{"k":1}}),
    ];
    let mut alphabet = vec![Op::Upd(0, 1), Op::Upd(0, 3), Op::Commit(0, 0), Op::Upd(1, 2), Op::Upd(1, 4), Op::Upd(1, 5), Op::Commit(1, 0), Op::Sync(0, 1), Op::Sync(1, 0), Op::Reopen(1), Op::Resolve(1, 0, 0), Op::Resolve(1, 0, 1)];
    alphabet.extend_from_slice(extra);
    Scenario {
        name: name.to_string(),
        nrep: 2,
        menu: menu(docs),
        prologue: vec![Op::Upd(0, 0), Op::Commit(0, 0), Op::Sync(1, 0)],
        alphabet,
        key_opts: KeyOpts::default(),
        max_depth: depth,
        track: true,
        order: None,
    }
}

/// Two levels of flattening where the OUTER element survives a concurrent deletion while its INNER array does
/// not: replica 0 edited x twice (its live version outranks the deletion) and the inner array once; replica 1
/// edited the inner array and then deleted x (which deletes the inner descriptor at a higher index than replica
/// 0's edit script). After the exchange x is back in the array with a deleted inner array.
pub fn nested_deleted_scenario(name: &str, depth: usize, extra: &[Op]) -> Scenario {
    let xi = |v: u32, inner: Vec<Value>| json!({"_id":"x","v":v,"n♭":inner});
    let w = || json!({"_id":"w","v":1});
    let u = || json!({"_id":"u","v":1});
    let docs = vec![
        json!({"l♭":[xi(1, vec![z()]), y()]}),
        json!({"l♭":[xi(2, vec![z(), w()]), y(), {"_id":"c","v":1}]}),
        json!({"l♭":[xi(3, vec![z(), w()]), y(), {"_id":"c","v":1}]}),
        json!({"l♭":[xi(1, vec![u(), z()]), y()]}),
        json!({"l♭":[y()]}),
        json!({"l♭":[xi(3, vec![w()]), y(), {"_id":"c","v":1}]}),
    ];
    let mut alphabet = vec![Op::Snapshot(0), Op::Snapshot(1), Op::Commit(0, 0), Op::Commit(1, 0), Op::Unstage(0), Op::Sync(0, 1), Op::Sync(1, 0), Op::Reopen(0), Op::Upd(0, 5), Op::Upd(1, 5)];
    for j in 0..2 {
        for k in 0..2 {
            alphabet.push(Op::Resolve(0, j, k));
        }
    }
    alphabet.extend_from_slice(extra);
    Scenario {
        name: name.to_string(),
        nrep: 2,
        menu: menu(docs),
        prologue: vec![
            Op::Upd(0, 0), Op::Commit(0, 0), Op::Sync(1, 0),
            Op::Upd(0, 1), Op::Commit(0, 0), Op::Upd(0, 2), Op::Commit(0, 0),
            Op::Upd(1, 3), Op::Commit(1, 0), Op::Upd(1, 4), Op::Commit(1, 0),
            Op::Sync(0, 1), Op::Sync(1, 0),
        ],
        alphabet,
        key_opts: KeyOpts::default(),
        max_depth: depth,
        track: true,
        order: None,
    }
}

/// Two replicas that never shared a first commit: each creates the document on its own (two origin blocks, the
/// root and the array created concurrently at index 1), then they exchange.
pub fn independent_origins_scenario(name: &str, depth: usize, extra: &[Op]) -> Scenario {
    let docs = vec![
        json!({"l♭":[x(), y()]}),
        json!({"l♭":[y(), z()], "s":"t"}),
        json!({"l♭":[x(), y()]}),
        json!({"l♭":[x2(), y(), z()]}),
        json!({"m♭":[x()]}),
    ];
    let mut alphabet = vec![Op::Sync(0, 1), Op::Sync(1, 0), Op::Upd(0, 3), Op::Upd(1, 3), Op::Upd(1, 4), Op::Commit(0, 0), Op::Commit(1, 0), Op::Reopen(0), Op::Snapshot(1)];
    for j in 0..2 {
        for k in 0..2 {
            alphabet.push(Op::Resolve(1, j, k));
        }
    }
    alphabet.extend_from_slice(extra);
    Scenario {
        name: name.to_string(),
        nrep: 2,
        menu: menu(docs),
        prologue: vec![Op::Upd(0, 0), Op::Commit(0, 0), Op::Upd(1, 1), Op::Commit(1, 1)],
        alphabet,
        key_opts: KeyOpts::default(),
        max_depth: depth,
        track: true,
        order: None,
    }
}

/// Two replica instances on the SAME storage (two processes on one directory): both edit and commit, each sees the
/// other's commits only through refresh / reload.
pub fn shared_storage_scenario(name: &str, depth: usize, extra: &[Op]) -> Scenario {
    let docs = vec![json!({"l♭":[x(), y()]}), json!({"l♭":[x2(), y()]}), json!({"l♭":[x(), y(), z()]}), json!({"l♭":[y()], "s":"t"})];
    let mut alphabet = vec![Op::Upd(0, 1), Op::Upd(0, 2), Op::Upd(1, 2), Op::Upd(1, 3), Op::Commit(0, 0), Op::Commit(1, 0), Op::Commit(1, 1), Op::Refresh(0), Op::Refresh(1), Op::Reload(0), Op::Reopen(1), Op::Unstage(1)];
    for k in 0..2 {
        alphabet.push(Op::Resolve(0, 0, k));
    }
    alphabet.extend_from_slice(extra);
    Scenario {
        name: name.to_string(),
        nrep: 2,
        menu: menu(docs),
        prologue: vec![Op::Upd(0, 0), Op::Commit(0, 0), Op::Attach(1, 0)],
        alphabet,
        key_opts: KeyOpts::default(),
        max_depth: depth,
        track: true,
        order: None,
    }
}

/// Replica 0 holds three commits and travels back in time; replica 1 holds only the first. Melds in both
/// directions from / into the travelled replica, refreshes, reloads, and commits made in the past.
pub fn travel_meld_scenario(name: &str, depth: usize, extra: &[Op]) -> Scenario {
    let docs = vec![json!({"l♭":[x(), y()]}), json!({"l♭":[x2(), y()]}), json!({"l♭":[x2(), y(), z()]}), json!({"l♭":[y()], "s":"t"})];
    let mut alphabet = vec![Op::Travel(0, 0), Op::Travel(0, 1), Op::Meld(1, 0), Op::Sync(1, 0), Op::Refresh(1), Op::Reload(0), Op::Upd(0, 3), Op::Commit(0, 0), Op::Meld(0, 1), Op::Upd(1, 3), Op::Commit(1, 1), Op::Travel(1, 0)];
    alphabet.extend_from_slice(extra);
    let mut sc = Scenario {
        name: name.to_string(),
        nrep: 2,
        menu: menu(docs),
        prologue: vec![Op::Upd(0, 0), Op::Commit(0, 0), Op::Sync(1, 0), Op::Upd(0, 1), Op::Commit(0, 0), Op::Upd(0, 2), Op::Commit(0, 0)],
        alphabet,
        key_opts: KeyOpts::default(),
        max_depth: depth,
        track: true,
        order: None,
    };
    sc.key_opts.heads = true;
    sc
}

/// A replica whose FIRST commit carries several revisions of the same objects (three documents submitted before
/// committing), then melded to / copied to / reopened by another replica.
pub fn first_commit_chains_scenario(name: &str, depth: usize, extra: &[Op]) -> Scenario {
    let docs = vec![json!({"l♭":[x(), y()]}), json!({"l♭":[x2(), y(), z()]}), json!({"l♭":[{"_id":"x","v":3}, z()], "s":"t"}), json!({"l♭":[y()]})];
    let mut alphabet = vec![Op::Upd(0, 0), Op::Upd(0, 1), Op::Upd(0, 2), Op::Upd(0, 3), Op::Commit(0, 0), Op::Commit(0, 1), Op::Sync(1, 0), Op::Meld(1, 0), Op::Reopen(1), Op::Reopen(0), Op::Sync(0, 1)];
    alphabet.extend_from_slice(extra);
    Scenario {
        name: name.to_string(),
        nrep: 2,
        menu: menu(docs),
        prologue: vec![],
        alphabet,
        key_opts: KeyOpts::default(),
        max_depth: depth,
        track: true,
        order: None,
    }
}

/// Two concurrent branches of an array whose LAST edit scripts are byte-identical ("delete one element at index
/// 0") although they apply to different parents.
pub fn same_last_patch_scenario(name: &str, depth: usize, extra: &[Op]) -> Scenario {
    let w = || json!({"_id":"w","v":1});
    let docs = vec![json!({"l♭":[x(), y()]}), json!({"l♭":[x(), y(), z()]}), json!({"l♭":[y(), z()]}), json!({"l♭":[x(), y(), w()]}), json!({"l♭":[y(), w()]}), json!({"l♭":[y()]})];
    let mut alphabet = vec![Op::Sync(0, 1), Op::Sync(1, 0), Op::Commit(0, 0), Op::Commit(1, 0), Op::Upd(0, 5), Op::Reopen(0), Op::Snapshot(1), Op::Resolve(1, 0, 0), Op::Resolve(1, 0, 1)];
    alphabet.extend_from_slice(extra);
    Scenario {
        name: name.to_string(),
        nrep: 2,
        menu: menu(docs),
        prologue: vec![Op::Upd(0, 0), Op::Commit(0, 0), Op::Sync(1, 0), Op::Upd(0, 1), Op::Commit(0, 0), Op::Upd(0, 2), Op::Commit(0, 0), Op::Upd(1, 3), Op::Commit(1, 0), Op::Upd(1, 4), Op::Commit(1, 0)],
        alphabet,
        key_opts: KeyOpts::default(),
        max_depth: depth,
        track: true,
        order: None,
    }
}

/// Plain-string elements: replica 0 removes the whole array, replica 1 concurrently removes one element and appends
/// another in two commits (its versions win by history length); then the exchange.
pub fn string_array_deleted_scenario(name: &str, depth: usize, extra: &[Op]) -> Scenario {
    let docs = vec![json!({"l♭":["x","y","z"]}), json!({"s":"a"}), json!({"l♭":["y","z"]}), json!({"l♭":["y","z","w"]}), json!({"l♭":["z","w"], "s":"b"})];
    let mut alphabet = vec![Op::Sync(0, 1), Op::Sync(1, 0), Op::Commit(0, 0), Op::Commit(1, 0), Op::Upd(1, 4), Op::Reopen(0), Op::Snapshot(1), Op::Resolve(1, 0, 0), Op::Resolve(1, 0, 1)];
    alphabet.extend_from_slice(extra);
    Scenario {
        name: name.to_string(),
        nrep: 2,
        menu: menu(docs),
        prologue: vec![Op::Upd(0, 0), Op::Commit(0, 0), Op::Sync(1, 0), Op::Upd(0, 1), Op::Commit(0, 0), Op::Upd(1, 2), Op::Commit(1, 0), Op::Upd(1, 3), Op::Commit(1, 0)],
        alphabet,
        key_opts: KeyOpts::default(),
        max_depth: depth,
        track: true,
        order: None,
    }
}

pub fn combo_scenarios(thorough: bool) -> Vec<Scenario> {
    let d = |q: usize, t: usize| if thorough { t } else { q };
    vec![
        snapshot_conflict_scenario("combo-snapshot-in-conflict", false, d(4, 5), &[]),
        snapshot_conflict_scenario("combo-snapshot-in-conflict-strings", true, d(4, 5), &[]),
        replay_after_commit_scenario("combo-replay-after-commit", d(5, 6), &[]),
        travel_identical_scenario("combo-travel-identical-commit", d(4, 5), &[]),
        discard_redo_scenario("combo-discard-and-redo", d(5, 6), &[]),
        local_supply_scenario("combo-local-commit-supplies-a-held-back-block", d(4, 5), &[]),
        ring_scenario("combo-ring", d(3, 4), &[]),
        alternating_scenario("combo-alternating-documents", d(4, 5), &[]),
        nested_conflict_scenario("combo-nested-flattening-conflict", d(4, 5), &[]),
        idless_field_scenario("combo-idless-object-in-flattened-field", d(4, 5), &[]),
        nested_deleted_scenario("combo-outer-element-survives-inner-array-deleted", d(2, 3), &[]),
        independent_origins_scenario("combo-independent-origins", d(4, 5), &[]),
        shared_storage_scenario("combo-two-instances-on-one-storage", d(4, 5), &[]),
        travel_meld_scenario("combo-meld-with-a-travelled-replica", d(3, 4), &[]),
        same_last_patch_scenario("combo-branches-with-identical-last-patch", d(3, 4), &[]),
        string_array_deleted_scenario("combo-string-array-removed-vs-edited-twice", d(3, 4), &[]),
        first_commit_chains_scenario("combo-first-commit-with-several-revisions", d(5, 6), &[]),
        {
            // the same under a reversed hash-iteration order (the order of the change records of one object)
            let mut sc = first_commit_chains_scenario("combo-first-commit-with-several-revisions-reversed-hash-order", d(5, 6), &[]);
            sc.order = Some(melda::verif_hooks::order::Mode::Reverse);
            sc
        },
    ]
}

pub fn cross_scenarios(thorough: bool) -> Vec<Scenario> {
    cross_scenarios_depth(if thorough { 2 } else { 1 })
}

pub fn cross_scenarios_depth(depth: usize) -> Vec<Scenario> {
    let depth = std::env::var("MV_CROSS_DEPTH").ok().and_then(|s| s.parse().ok()).unwrap_or(depth);
    let base: Vec<Scenario> = vec![
        pair_conflict_scenario("x-pair-conflict", 2, 3, &[1, 8], depth, &[]),
        pair_conflict_scenario("x-pair-edit-hi-vs-delete", 15, 3, &[9], depth, &[]),
        pair_conflict_scenario("x-pair-conflict-move", 6, 5, &[1, 3], depth, &[]),
        long_chain_scenario("x-pair-long-chain", depth, &[]),
        diamond_scenario("x-pair-diamond", &[1, 9], depth, &[]),
        two_patch_scenario("x-pair-two-patches", depth, &[]),
        tie_scenario("x-pair-tie", depth, &[]),
        trio_merge_scenario("x-trio-merge", depth, &[]),
        many_commits_scenario("x-pair-many-commits", depth, &[]),
        three_leaves_scenario("x-trio-three-leaves", depth, &[]),
        same_edit_scenario("x-pair-same-edit", depth, &[]),
        mutual_move_scenario("x-pair-mutual-move", depth, &[]),
        travel_reuse_scenario("x-pair-travel-reuse", depth, &[]),
        relay_scenario("x-trio-relay", depth, &[]),
        array_deleted_scenario("x-pair-array-deleted-vs-edited-once", 1, depth, &[]),
        array_deleted_scenario("x-pair-array-deleted-vs-edited-twice", 2, depth, &[]),
        emptied_scenario("x-pair-array-emptied-in-one-step-vs-insert", 1, depth, &[]),
        emptied_scenario("x-pair-array-emptied-in-two-steps-vs-insert", 2, depth, &[]),
        uneven_heads_scenario("x-pair-heads-9-and-10", depth, &[]),
    ];
    base.into_iter()
        .map(|mut sc| {
            let nd = sc.menu.docs.len();
            let mut a: Vec<Op> = vec![];
            for r in 0..sc.nrep {
                // a few documents of the scenario's own menu: first, second, last
                let mut ds = vec![0, 1.min(nd - 1), nd - 1];
                ds.dedup();
                for d in ds {
                    a.push(Op::Upd(r, d));
                }
                a.extend_from_slice(&[
                    Op::Commit(r, 0), Op::Commit(r, 3), Op::Unstage(r), Op::Snapshot(r), Op::ObjPut(r, 1), Op::ObjRemove(r, 0),
                    Op::Reopen(r), Op::Reload(r), Op::Refresh(r), Op::Travel(r, 0), Op::Travel(r, 1), Op::Travel(r, 2),
                    Op::Resolve(r, 0, 0), Op::Resolve(r, 0, 1), Op::Resolve(r, 1, 0), Op::StageRt(r),
                ]);
                for s in 0..sc.nrep {
                    if s != r {
                        a.push(Op::Sync(r, s));
                        a.push(Op::Meld(r, s));
                        a.push(Op::CopyDeltas(r, s));
                    }
                }
            }
            sc.alphabet = a;
            sc.max_depth = depth;
            sc.key_opts.heads = true;
            sc.track = true;
            sc
        })
        .collect()
}
