//! Worlds of real Melda replicas over TraceAdapter stores, operations, views and state keys.
use crate::adapter::Store;
use crate::guard::{call, set_trace, HANG_PREFIX};
use melda::melda::{DeltaId, Melda};
use serde::{Deserialize, Serialize};
use serde_json::{json, Map, Value};
use sha2::{Digest, Sha256};
use std::collections::{BTreeMap, BTreeSet};

pub fn sha_hex(b: &[u8]) -> String {
    let mut h = Sha256::new();
    h.update(b);
    hex::encode(h.finalize())
}

#[derive(Clone, Debug, PartialEq, Eq, Hash, Serialize, Deserialize)]
pub enum Op {
    /// update(docs[d]) on replica r
    Upd(usize, usize),
    /// commit(infos[i]) on replica r
    Commit(usize, usize),
    /// r.meld(s); r.refresh()
    Sync(usize, usize),
    /// r.meld(s)
    Meld(usize, usize),
    Refresh(usize),
    Reload(usize),
    /// reload_until(k-th recorded head set of r)
    Travel(usize, usize),
    /// resolve_as(j-th object in conflict (sorted), k-th live leaf (ascending))
    Resolve(usize, usize, usize),
    Unstage(usize),
    Snapshot(usize),
    /// s = stage(); unstage(); replay_stage(s)
    StageRt(usize),
    /// drop the replica object and open a fresh one on the same storage
    Reopen(usize),
    /// copy every item of s's storage that r's storage lacks (plain file copy, no refresh)
    CopyAll(usize, usize),
    /// update_object("obj", {"n": n}) on replica r: stages a change that touches no array
    ObjPut(usize, usize),
    /// delete_object("obj") on replica r
    ObjDel(usize),
    /// read(None) on replica r (warms the reconstruction caches; the result is not part of the state)
    Read(usize),
    /// remove_object(uuid) on replica r, uuid = "obj" (n = 0) or the element id "x" (n = 1)
    ObjRemove(usize, usize),
    /// copy only the block files (.delta) of s's storage that r lacks (their packs are "still in flight")
    CopyDeltas(usize, usize),
    /// saved = stage() on replica r (the export is kept by the harness; nothing changes in the replica)
    StageSave(usize),
    /// replay_stage(saved) on replica r (the export saved last on that replica)
    StageReplay(usize),
    /// replay on replica .0 the stage export saved on replica .1
    StageReplayFrom(usize, usize),
    /// replica .0 becomes a fresh instance opened on the SAME storage as replica .1 (shared from then on)
    Attach(usize, usize),
}

impl Op {
    pub fn replica(&self) -> usize {
        match self {
            Op::Upd(r, _)
            | Op::Commit(r, _)
            | Op::Sync(r, _)
            | Op::Meld(r, _)
            | Op::Refresh(r)
            | Op::Reload(r)
            | Op::Travel(r, _)
            | Op::Resolve(r, _, _)
            | Op::Unstage(r)
            | Op::Snapshot(r)
            | Op::StageRt(r)
            | Op::Reopen(r)
            | Op::CopyAll(r, _)
            | Op::ObjPut(r, _)
            | Op::ObjDel(r)
            | Op::Read(r)
            | Op::ObjRemove(r, _)
            | Op::CopyDeltas(r, _)
            | Op::StageSave(r)
            | Op::StageReplay(r)
            | Op::StageReplayFrom(r, _)
            | Op::Attach(r, _) => *r,
        }
    }
    pub fn short(&self) -> String {
        match self {
            Op::Upd(r, d) => format!("upd({},D{})", r, d),
            Op::Commit(r, i) => format!("commit({},I{})", r, i),
            Op::Sync(r, s) => format!("sync({}<-{})", r, s),
            Op::Meld(r, s) => format!("meld({}<-{})", r, s),
            Op::Refresh(r) => format!("refresh({})", r),
            Op::Reload(r) => format!("reload({})", r),
            Op::Travel(r, k) => format!("travel({},H{})", r, k),
            Op::Resolve(r, j, k) => format!("resolve({},obj{},leaf{})", r, j, k),
            Op::Unstage(r) => format!("unstage({})", r),
            Op::Snapshot(r) => format!("snapshot({})", r),
            Op::StageRt(r) => format!("stagert({})", r),
            Op::Reopen(r) => format!("reopen({})", r),
            Op::CopyAll(r, s) => format!("copyall({}<-{})", r, s),
            Op::ObjPut(r, n) => format!("objput({},{})", r, n),
            Op::ObjDel(r) => format!("objdel({})", r),
            Op::Read(r) => format!("read({})", r),
            Op::ObjRemove(r, n) => format!("objremove({},{})", r, n),
            Op::CopyDeltas(r, s) => format!("copydeltas({}<-{})", r, s),
            Op::StageSave(r) => format!("stagesave({})", r),
            Op::StageReplay(r) => format!("stagereplay({})", r),
            Op::StageReplayFrom(r, s) => format!("stagereplay({}<-saved on {})", r, s),
            Op::Attach(r, s) => format!("attach({} to the storage of {})", r, s),
        }
    }
}

pub fn hist_str(h: &[Op]) -> String {
    h.iter().map(|o| o.short()).collect::<Vec<_>>().join(" ; ")
}

/// Static description of the documents / commit infos an exploration draws from
#[derive(Clone, Debug, Default)]
pub struct Menu {
    pub docs: Vec<Value>,
    pub infos: Vec<Option<Value>>,
}

impl Menu {
    pub fn doc(&self, d: usize) -> Map<String, Value> {
        self.docs[d].as_object().expect("doc is an object").clone()
    }
    pub fn info(&self, i: usize) -> Option<Map<String, Value>> {
        self.infos
            .get(i)
            .cloned()
            .flatten()
            .map(|v| v.as_object().unwrap().clone())
    }
}

pub struct Replica {
    pub m: Melda,
    pub store: Store,
    /// distinct non-empty head sets seen while nothing was staged, in order of first appearance
    pub heads: Vec<BTreeSet<String>>,
    /// set after a panic inside the replica (locks may be poisoned)
    pub dead: Option<String>,
    /// (only with World.track) view + tree dumps recorded when heads[k] was first seen
    pub head_views: Vec<Value>,
    /// (only with World.track) view + tree dumps at the last moment nothing was staged
    pub last_clean: Option<Value>,
    /// stage export saved by Op::StageSave
    pub saved_stage: Option<Option<Value>>,
    /// blocks the replica had applied when the stage was saved (a foreign replica may replay the export only if
    /// it has applied them too: an export is a set of changes relative to that history)
    pub saved_base: BTreeSet<String>,
}

#[derive(Clone, Debug, PartialEq)]
pub enum OpOut {
    Ok(String),
    Err(String),
    Panic(String),
    /// the watchdog observed that this call does not return
    Hang(String),
    /// the operation could not be attempted (dead replica, index out of range)
    NotEnabled(String),
}

impl OpOut {
    pub fn text(&self) -> String {
        match self {
            OpOut::Ok(s) => format!("ok:{}", s),
            OpOut::Err(s) => format!("err:{}", s),
            OpOut::Panic(s) => format!("panic:{}", s),
            OpOut::Hang(s) => format!("hang:{}", s),
            OpOut::NotEnabled(s) => format!("notenabled:{}", s),
        }
    }
    pub fn is_panic(&self) -> bool {
        matches!(self, OpOut::Panic(_))
    }
    pub fn is_ok(&self) -> bool {
        matches!(self, OpOut::Ok(_))
    }
}

pub struct World {
    pub reps: Vec<Replica>,
    pub menu: std::sync::Arc<Menu>,
    pub trace: Vec<Op>,
    /// record views at every head set / clean moment (C14, C15)
    pub track: bool,
    /// ground truth for stored array versions: (descriptor uuid, revision) -> ids of the array that
    /// was submitted when that revision was created (root-level flattened arrays of objects only).
    /// Revision identifiers are content-derived, so the map is shared by all replicas.
    pub truth: BTreeMap<(String, String), Vec<String>>,
    /// updates after which the winning descriptor revision already stood for a different array
    pub truth_conflicts: Vec<Value>,
}

pub fn open(store: &Store) -> Result<Melda, String> {
    let ad = store.adapter();
    match call("Melda::new", move || Melda::new(ad)) {
        Ok(Ok(m)) => Ok(m),
        Ok(Err(e)) => Err(format!("err:{}", e)),
        Err(p) => Err(format!("panic:{}", p)),
    }
}

pub fn anchors_of(m: &Melda) -> BTreeSet<String> {
    m.get_anchors().iter().map(|a| a.to_string()).collect()
}

pub fn to_delta_ids(s: &BTreeSet<String>) -> BTreeSet<DeltaId> {
    // (an identifier the library printed but cannot parse back is left out here; C13 reports it)
    s.iter().filter_map(|x| DeltaId::from(x).ok()).collect()
}

impl World {
    pub fn new(nrep: usize, menu: std::sync::Arc<Menu>) -> World {
        set_trace("");
        let mut reps = vec![];
        for _ in 0..nrep {
            let store = Store::new();
            let m = open(&store).expect("open on empty store");
            reps.push(Replica {
                m,
                store,
                heads: vec![],
                dead: None,
                head_views: vec![],
                last_clean: None,
                saved_stage: None,
                saved_base: BTreeSet::new(),
            });
        }
        World {
            reps,
            menu,
            trace: vec![],
            track: false,
            truth: BTreeMap::new(),
            truth_conflicts: vec![],
        }
    }

    /// makes this world the target of subsequent guarded calls (labels for the watchdog)
    pub fn focus(&self) {
        set_trace(&hist_str(&self.trace));
    }

    pub fn any_dead(&self) -> bool {
        self.reps.iter().any(|r| r.dead.is_some())
    }

    pub fn build(nrep: usize, menu: std::sync::Arc<Menu>, hist: &[Op]) -> World {
        Self::build_tracked(nrep, menu, hist, false)
    }

    pub fn build_tracked(
        nrep: usize,
        menu: std::sync::Arc<Menu>,
        hist: &[Op],
        track: bool,
    ) -> World {
        let mut w = World::new(nrep, menu);
        w.track = track;
        for op in hist {
            w.apply(op);
        }
        w
    }

    fn record_heads(&mut self, r: usize) {
        let rep = &mut self.reps[r];
        if rep.dead.is_some() {
            return;
        }
        let ok = call("record_heads", || {
            if !rep.m.has_staging() {
                Some(anchors_of(&rep.m))
            } else {
                None
            }
        });
        if let Ok(Some(a)) = ok {
            let snap = if self.track {
                Some(json!({"view": view(&rep.m), "trees": trees(&rep.m), "values": revision_values(&rep.m)}))
            } else {
                None
            };
            if !a.is_empty() && !rep.heads.contains(&a) {
                rep.heads.push(a);
                if let Some(s) = &snap {
                    rep.head_views.push(s.clone());
                }
            }
            if snap.is_some() {
                rep.last_clean = snap;
            }
        }
    }

    pub fn apply(&mut self, op: &Op) -> OpOut {
        let r = op.replica();
        if r >= self.reps.len() {
            return OpOut::NotEnabled("no such replica".into());
        }
        if let Some(d) = &self.reps[r].dead {
            return OpOut::NotEnabled(format!("replica dead: {}", d));
        }
        let label = op.short();
        self.focus();
        let menu = self.menu.clone();
        let res: Result<Result<String, String>, String> = match op {
            Op::Upd(_, d) => {
                let doc = menu.doc(*d);
                let m = &self.reps[r].m;
                call(&label, || m.update(doc).map_err(|e| e.to_string()))
            }
            Op::Commit(_, i) => {
                let info = menu.info(*i);
                let m = &self.reps[r].m;
                call(&label, || {
                    m.commit(info)
                        .map(|o| match o {
                            None => "none".to_string(),
                            Some(s) => s
                                .iter()
                                .map(|d| d.to_string())
                                .collect::<Vec<_>>()
                                .join(","),
                        })
                        .map_err(|e| e.to_string())
                })
            }
            Op::Meld(_, s) | Op::Sync(_, s) => {
                if *s >= self.reps.len() || *s == r {
                    return OpOut::NotEnabled("bad source".into());
                }
                if self.reps[*s].dead.is_some() {
                    return OpOut::NotEnabled("source dead".into());
                }
                let res = {
                    let a = &self.reps[r].m;
                    let b = &self.reps[*s].m;
                    call(&label, || {
                        a.meld(b)
                            .map(|mut v| {
                                v.sort();
                                v.join(",")
                            })
                            .map_err(|e| e.to_string())
                    })
                };
                if let (Op::Sync(_, _), Ok(Ok(melded))) = (op, &res) {
                    let melded = melded.clone();
                    let m = &mut self.reps[r].m;
                    call(&label, || {
                        m.refresh()
                            .map(|_| format!("melded[{}]", melded))
                            .map_err(|e| format!("refresh:{}", e))
                    })
                } else {
                    res
                }
            }
            Op::Refresh(_) => {
                let m = &mut self.reps[r].m;
                call(&label, || m.refresh().map(|_| String::new()).map_err(|e| e.to_string()))
            }
            Op::Reload(_) => {
                let m = &self.reps[r].m;
                call(&label, || m.reload().map(|_| String::new()).map_err(|e| e.to_string()))
            }
            Op::Travel(_, k) => {
                let Some(h) = self.reps[r].heads.get(*k).cloned() else {
                    return OpOut::NotEnabled("no such head set".into());
                };
                let ids = to_delta_ids(&h);
                let m = &self.reps[r].m;
                call(&label, || {
                    m.reload_until(&ids)
                        .map(|_| String::new())
                        .map_err(|e| e.to_string())
                })
            }
            Op::Resolve(_, j, k) => {
                let m = &self.reps[r].m;
                let sel = call(&label, || {
                    let c: Vec<String> = m.in_conflict().into_iter().collect();
                    let uuid = c.get(*j)?.clone();
                    let leafs = m.verif_leafs(&uuid)?;
                    let leaf = leafs.get(*k)?.clone();
                    Some((uuid, leaf))
                });
                match sel {
                    Ok(Some((uuid, leaf))) => call(&label, || {
                        m.resolve_as(&uuid, &leaf).map_err(|e| e.to_string())
                    }),
                    Ok(None) => return OpOut::NotEnabled("no such conflict/leaf".into()),
                    Err(p) => Err(p),
                }
            }
            Op::Unstage(_) => {
                let m = &mut self.reps[r].m;
                call(&label, || m.unstage().map(|_| String::new()).map_err(|e| e.to_string()))
            }
            Op::Snapshot(_) => {
                let m = &self.reps[r].m;
                call(&label, || {
                    m.stage_full_snapshot()
                        .map(|_| String::new())
                        .map_err(|e| e.to_string())
                })
            }
            Op::StageRt(_) => {
                let m = &mut self.reps[r].m;
                call(&label, || {
                    let s = m.stage().map_err(|e| format!("stage:{}", e))?;
                    m.unstage().map_err(|e| format!("unstage:{}", e))?;
                    m.replay_stage(&s).map_err(|e| format!("replay:{}", e))?;
                    Ok(String::new())
                })
            }
            Op::Attach(_, src) => {
                if *src >= self.reps.len() || *src == r {
                    return OpOut::NotEnabled("bad source".into());
                }
                let store = self.reps[*src].store.clone();
                match open(&store) {
                    Ok(m) => {
                        self.reps[r].m = m;
                        self.reps[r].store = store;
                        self.reps[r].heads = vec![];
                        self.reps[r].head_views = vec![];
                        self.reps[r].saved_stage = None;
                        Ok(Ok(String::new()))
                    }
                    Err(e) if e.starts_with("panic:") => Err(e),
                    Err(e) => Ok(Err(e)),
                }
            }
            Op::Reopen(_) => {
                let store = self.reps[r].store.clone();
                match open(&store) {
                    Ok(m) => {
                        self.reps[r].m = m;
                        Ok(Ok(String::new()))
                    }
                    Err(e) if e.starts_with("panic:") => Err(e),
                    Err(e) => Ok(Err(e)),
                }
            }
            Op::ObjPut(_, n) => {
                let m = &self.reps[r].m;
                // 100 + k: exactly the content {"v": k} of an array element of the menus
                let o = if *n >= 100 { json!({"v": n - 100}) } else { json!({"n": n}) }.as_object().unwrap().clone();
                call(&label, || {
                    m.update_object("obj", o)
                        .map(|x| x.unwrap_or_default())
                        .map_err(|e| e.to_string())
                })
            }
            Op::ObjDel(_) => {
                let m = &self.reps[r].m;
                call(&label, || {
                    m.delete_object("obj")
                        .map(|x| x.unwrap_or_default())
                        .map_err(|e| e.to_string())
                })
            }
            Op::ObjRemove(_, n) => {
                let m = &self.reps[r].m;
                let uuid = if *n == 0 { "obj" } else { "x" };
                call(&label, || m.remove_object(uuid).map(|x| x.unwrap_or_default()).map_err(|e| e.to_string()))
            }
            Op::CopyDeltas(_, s) => {
                if *s >= self.reps.len() || *s == r {
                    return OpOut::NotEnabled("bad source".into());
                }
                let src = self.reps[*s].store.snapshot();
                let mut n = 0;
                for (k, v) in src {
                    if k.ends_with(".delta") && self.reps[r].store.put_if_absent(&k, v) {
                        n += 1;
                    }
                }
                Ok(Ok(format!("copied {}", n)))
            }
            Op::StageSave(_) => {
                let m = &self.reps[r].m;
                match call(&label, || m.stage().map_err(|e| e.to_string())) {
                    Ok(Ok(s)) => {
                        let d = s.as_ref().map(|v| sha_hex(v.to_string().as_bytes())[..8].to_string()).unwrap_or_else(|| "none".into());
                        let base: BTreeSet<String> = m.verif_delta_status().into_iter().filter(|(_, st)| *st == "applied").map(|(k, _)| k).collect();
                        self.reps[r].saved_stage = Some(s);
                        self.reps[r].saved_base = base;
                        Ok(Ok(d))
                    }
                    Ok(Err(e)) => Ok(Err(e)),
                    Err(p) => Err(p),
                }
            }
            Op::StageReplay(_) => {
                let Some(s) = self.reps[r].saved_stage.clone() else {
                    return OpOut::NotEnabled("no saved stage".into());
                };
                let m = &self.reps[r].m;
                call(&label, || m.replay_stage(&s).map(|_| String::new()).map_err(|e| e.to_string()))
            }
            Op::StageReplayFrom(_, src) => {
                if *src >= self.reps.len() {
                    return OpOut::NotEnabled("bad source".into());
                }
                let Some(s) = self.reps[*src].saved_stage.clone() else {
                    return OpOut::NotEnabled("no saved stage".into());
                };
                let mine: BTreeSet<String> = self.reps[r].m.verif_delta_status().into_iter().filter(|(_, st)| *st == "applied").map(|(k, _)| k).collect();
                if !self.reps[*src].saved_base.is_subset(&mine) {
                    return OpOut::NotEnabled("the export is relative to a history this replica has not applied".into());
                }
                let m = &self.reps[r].m;
                call(&label, || m.replay_stage(&s).map(|_| String::new()).map_err(|e| e.to_string()))
            }
            Op::Read(_) => {
                let m = &self.reps[r].m;
                call(&label, || m.read(None).map(|d| sha_hex(Value::Object(d).to_string().as_bytes())[..8].to_string()).map_err(|e| e.to_string()))
            }
            Op::CopyAll(_, s) => {
                if *s >= self.reps.len() || *s == r {
                    return OpOut::NotEnabled("bad source".into());
                }
                let src = self.reps[*s].store.snapshot();
                let mut n = 0;
                for (k, v) in src {
                    if self.reps[r].store.put_if_absent(&k, v) {
                        n += 1;
                    }
                }
                Ok(Ok(format!("copied {}", n)))
            }
        };
        let out = match res {
            Ok(Ok(s)) => OpOut::Ok(s),
            Ok(Err(e)) => OpOut::Err(e),
            Err(p) => {
                self.reps[r].dead = Some(p.clone());
                if p.starts_with(HANG_PREFIX) {
                    OpOut::Hang(p)
                } else {
                    OpOut::Panic(p)
                }
            }
        };
        self.trace.push(op.clone());
        self.focus();
        if let (Op::Upd(_, d), OpOut::Ok(_)) = (op, &out) {
            self.record_truth(r, *d);
        }
        self.record_heads(r);
        out
    }

    /// after a successful update: the winner of every root-level array descriptor holds the submitted order
    fn record_truth(&mut self, r: usize, d: usize) {
        let doc = self.menu.docs[d].clone();
        let Some(o) = doc.as_object() else { return };
        for (k, v) in o {
            if !k.ends_with('\u{266D}') {
                continue;
            }
            let Some(arr) = v.as_array() else { continue };
            let ids: Option<Vec<String>> = arr
                .iter()
                // (plain strings are their own identity, written "!<string>" to keep them apart from identifiers)
                .map(|e| e.get("_id").and_then(|i| i.as_str()).map(|s| s.to_string()).or_else(|| e.as_str().map(|s| format!("!{}", s))))
                .collect();
            let Some(ids) = ids else { continue };
            let uuid = format!("^\u{221A}@{}", k);
            let m = &self.reps[r].m;
            if let Ok(Ok(w)) = call("get_winner", || m.get_winner(&uuid)) {
                // an unchanged array keeps its winner: the recorded order must then already be equal
                match self.truth.get(&(uuid.clone(), w.clone())) {
                    Some(old) if *old != ids => self.truth_conflicts.push(json!({"uuid": uuid, "revision": w, "stands_for": old, "submitted": ids, "replica": r})),
                    Some(_) => {}
                    None => {
                        self.truth.insert((uuid, w), ids);
                    }
                }
            }
        }
    }

    pub fn view(&self, r: usize) -> Value {
        self.focus();
        match &self.reps[r].dead {
            Some(d) => json!({ "dead": d }),
            None => view(&self.reps[r].m),
        }
    }

    /// canonical state key of the whole world
    pub fn key(&self, opts: &KeyOpts) -> String {
        self.focus();
        let mut h = Sha256::new();
        for rep in &self.reps {
            h.update(b"|R|");
            match &rep.dead {
                Some(d) => h.update(format!("dead:{}", d).as_bytes()),
                None => {
                    let v = replica_state(rep, opts);
                    h.update(serde_json::to_string(&v).unwrap().as_bytes());
                }
            }
        }
        hex::encode(h.finalize())
    }
}

#[derive(Clone, Debug)]
pub struct KeyOpts {
    pub caches: bool,
    pub heads: bool,
    /// also distinguish states by the content of the array-reconstruction cache (cold / warm readers)
    pub acache: bool,
}

impl Default for KeyOpts {
    fn default() -> Self {
        KeyOpts {
            caches: true,
            heads: false,
            acache: false,
        }
    }
}

/// Dump of every revision tree: uuid -> [(rev, parent, staged)]
pub fn trees(m: &Melda) -> Value {
    match call("trees", || {
        let mut t = Map::new();
        for uuid in m.get_all_objects() {
            t.insert(uuid.clone(), json!(m.verif_dump_tree(&uuid)));
        }
        Value::Object(t)
    }) {
        Ok(v) => v,
        Err(p) => json!({ "panic": p }),
    }
}

/// value and parent of every recorded revision of every object: uuid -> rev -> [value, parent]
pub fn revision_values(m: &Melda) -> Value {
    match call("revision_values", || {
        let mut out = Map::new();
        for uuid in m.get_all_objects() {
            let mut per = Map::new();
            for (rev, _, _) in m.verif_dump_tree(&uuid).unwrap_or_default() {
                let v = match m.get_value(&uuid, Some(&rev)) {
                    Ok(v) => Value::Object(v),
                    Err(e) => json!(format!("err:{}", e)),
                };
                let p = match m.get_parent_revision(&uuid, &rev) {
                    Ok(p) => json!(p),
                    Err(e) => json!(format!("err:{}", e)),
                };
                per.insert(rev, json!([v, p]));
            }
            out.insert(uuid, Value::Object(per));
        }
        Value::Object(out)
    }) {
        Ok(v) => v,
        Err(p) => json!({ "panic": p }),
    }
}

/// Staged change records + staged objects as a canonical (sorted) value
pub fn stage_export(m: &Melda) -> Value {
    match call("stage", || m.stage()) {
        Ok(Ok(None)) => Value::Null,
        Ok(Ok(Some(mut v))) => {
            if let Some(c) = v.get_mut("c").and_then(|c| c.as_array_mut()) {
                c.sort_by_key(|x| x.to_string());
            }
            v
        }
        Ok(Err(e)) => json!({ "err": e.to_string() }),
        Err(p) => json!({ "panic": p }),
    }
}

/// Complete logical state of a replica (used for deduplication)
pub fn replica_state(rep: &Replica, opts: &KeyOpts) -> Value {
    let m = &rep.m;
    let r = call("state", || {
        let store: Vec<Value> = rep
            .store
            .snapshot()
            .iter()
            .map(|(k, v)| json!([k, sha_hex(v)]))
            .collect();
        let mut trees = Map::new();
        // the caches every revision tree derives from its revisions (live leaves, winner): a pure
        // function of the tree when the code is right, so they split no state then; when a mutation
        // path forgets to refresh them the stale state must not be merged with the fresh one
        let mut derived = Map::new();
        for uuid in m.get_all_objects() {
            let t = m.verif_dump_tree(&uuid);
            trees.insert(uuid.clone(), json!(t));
            derived.insert(uuid.clone(), json!([m.get_winner(&uuid).ok(), m.verif_leafs(&uuid), m.verif_tree_has_staging(&uuid)]));
        }
        let stage = m.verif_stage_keys();
        let mut v = json!({
            "store": store,
            "trees": trees,
            "derived": derived,
            "stage": stage,
            "deltas": m.verif_delta_status(),
            "packs": m.verif_applied_packs(),
            // digests the pack index claims to hold (set only: the location of a digest stored in two packs
            // legitimately depends on arrival order)
            "indexed": m.verif_committed_objects().keys().cloned().collect::<Vec<_>>(),
        });
        if opts.caches {
            // sorted: the recency order only matters for eviction and depends on the
            // (uncontrolled) order in which parallel workers finish
            let mut dc = m.verif_data_cache_keys();
            dc.sort();
            v["dcache"] = json!(dc);
        }
        if opts.heads {
            v["heads"] = json!(rep.heads);
        }
        if let Some(s) = &rep.saved_stage {
            v["saved_stage"] = s.clone().unwrap_or(Value::Null);
        }
        if opts.acache {
            let mut ac = m.verif_array_cache_keys();
            ac.sort();
            v["acache"] = json!(ac);
        }
        v
    });
    match r {
        Ok(v) => v,
        Err(p) => json!({ "state_panic": p }),
    }
}

fn res_str<T: std::fmt::Display, E: std::fmt::Display>(
    r: Result<Result<T, E>, String>,
) -> String {
    match r {
        Ok(Ok(v)) => format!("ok:{}", v),
        Ok(Err(e)) => format!("err:{}", e),
        Err(p) => format!("panic:{}", p),
    }
}

/// Result of read(None) as a Value: {"ok": doc} | {"err": msg} | {"panic": msg}
pub fn read_doc(m: &Melda) -> Value {
    match call("read", || m.read(None)) {
        Ok(Ok(v)) => json!({ "ok": Value::Object(v) }),
        Ok(Err(e)) => json!({ "err": e.to_string() }),
        Err(p) => json!({ "panic": p }),
    }
}

/// Observable view of a replica
pub fn view(m: &Melda) -> Value {
    let objs = match call("get_all_objects", || m.get_all_objects()) {
        Ok(o) => o,
        Err(p) => return json!({ "panic": p }),
    };
    let mut o = Map::new();
    for uuid in &objs {
        let w = res_str(call("get_winner", || m.get_winner(uuid)));
        let c = match call("get_conflicting", || m.get_conflicting(uuid)) {
            Ok(Ok(s)) => json!(s),
            Ok(Err(e)) => json!(format!("err:{}", e)),
            Err(p) => json!(format!("panic:{}", p)),
        };
        let v = match call("get_value", || m.get_value(uuid, None)) {
            Ok(Ok(v)) => Value::Object(v),
            Ok(Err(e)) => json!(format!("err:{}", e)),
            Err(p) => json!(format!("panic:{}", p)),
        };
        o.insert(uuid.clone(), json!({"w": w, "c": c, "v": v}));
    }
    let ic = match call("in_conflict", || m.in_conflict()) {
        Ok(s) => json!(s),
        Err(p) => json!(format!("panic:{}", p)),
    };
    let anchors = match call("get_anchors", || anchors_of(m)) {
        Ok(a) => json!(a),
        Err(p) => json!(format!("panic:{}", p)),
    };
    json!({
        "objects": o,
        "in_conflict": ic,
        "read": read_doc(m),
        "anchors": anchors,
    })
}

/// view without the anchors (for comparisons across different block graphs)
pub fn view_no_anchors(m: &Melda) -> Value {
    let mut v = view(m);
    if let Some(o) = v.as_object_mut() {
        o.remove("anchors");
    }
    v
}

/// Block graph as a replica reports it through get_delta: id -> {parents, packs, info}
pub fn block_graph(m: &Melda) -> Value {
    let st = m.verif_delta_status();
    let mut g = Map::new();
    for (id, status) in st {
        let Ok(did) = DeltaId::from(&id) else {
            g.insert(id, json!("identifier-does-not-parse-back"));
            continue;
        };
        let d = match call("get_delta", || m.get_delta(&did)) {
            Ok(Ok(Some(d))) => json!({
                "parents": d.parents.map(|p| p.iter().map(|x| x.to_string()).collect::<Vec<_>>()),
                "packs": d.packs,
                "info": d.info,
                "status": status,
            }),
            Ok(Ok(None)) => json!("none"),
            Ok(Err(e)) => json!(format!("err:{}", e)),
            Err(p) => json!(format!("panic:{}", p)),
        };
        g.insert(id, d);
    }
    Value::Object(g)
}

pub fn store_digest(m: &BTreeMap<String, Vec<u8>>) -> String {
    let mut h = Sha256::new();
    for (k, v) in m {
        h.update(k.as_bytes());
        h.update(b"\0");
        h.update(sha_hex(v).as_bytes());
    }
    hex::encode(h.finalize())
}
