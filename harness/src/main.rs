#![allow(dead_code)]
mod adapter;
mod explore;
mod guard;
mod menu;
mod props;
mod refmodel;
mod report;
mod world;

fn usage() -> ! {
    eprintln!("usage: mv <C01..C19> --tier quick|thorough | mv replay <file>");
    std::process::exit(2);
}

fn main() {
    guard::install_quiet_panic_hook();
    let args: Vec<String> = std::env::args().collect();
    if args.len() < 2 {
        usage();
    }
    let mut tier = std::env::var("VERIF_TIER").unwrap_or_else(|_| "quick".to_string());
    let mut i = 2;
    let mut rest = vec![];
    while i < args.len() {
        if args[i] == "--tier" && i + 1 < args.len() {
            tier = args[i + 1].clone();
            i += 2;
        } else {
            rest.push(args[i].clone());
            i += 1;
        }
    }
    if tier != "quick" && tier != "thorough" {
        usage();
    }
    let thorough = tier == "thorough";
    // a panic of the harness itself is a machinery failure (exit 2), never a verdict
    let r = std::panic::catch_unwind(std::panic::AssertUnwindSafe(|| match args[1].as_str() {
        "replay" => {
            if rest.is_empty() {
                usage();
            }
            props::replay::replay(&rest[0]);
        }
        p => props::run(p, thorough, &rest),
    }));
    if let Err(e) = r {
        eprintln!("MACHINERY: the harness panicked: {}", guard::payload_msg(&e));
        std::process::exit(2);
    }
}
