//! TraceAdapter: an in-memory write-once store that logs writes, can fail chosen writes,
//! can permute listings, and can be snapshotted / restored by the harness.
use anyhow::{anyhow, Result};
use melda::adapter::Adapter;
use std::any::Any;
use std::collections::{BTreeMap, BTreeSet};
use std::sync::{Arc, Mutex, RwLock};

#[derive(Clone, Debug, PartialEq)]
pub enum WriteOutcome {
    Stored,
    SameIgnored,
    DiffIgnored,
    Failed,
}

#[derive(Clone, Debug)]
pub struct WriteRec {
    pub key: String,
    pub bytes: Vec<u8>,
    pub outcome: WriteOutcome,
}

#[derive(Clone, Debug, PartialEq)]
pub enum ListMode {
    Sorted,
    Reverse,
    Rotate(usize),
    /// applied when the listed length equals perm.len()
    Perm(Vec<usize>),
}

pub struct StoreState {
    pub map: BTreeMap<String, Vec<u8>>,
    pub log: Vec<WriteRec>,
    /// indexes (into the sequence of write calls since `arm`) that must fail
    pub fail: BTreeSet<usize>,
    pub calls: usize,
    pub list_mode: ListMode,
    pub list_calls: Vec<(String, usize)>,
    pub reads: usize,
}

#[derive(Clone)]
pub struct Store(pub Arc<Mutex<StoreState>>);

impl Default for Store {
    fn default() -> Self {
        Self::new()
    }
}

thread_local! {
    /// listing order given to every store created on this thread (configuration sweeps)
    static DEFAULT_LIST_MODE: std::cell::RefCell<ListMode> = const { std::cell::RefCell::new(ListMode::Sorted) };
}

pub fn set_default_list_mode(m: ListMode) {
    DEFAULT_LIST_MODE.with(|d| *d.borrow_mut() = m);
}

impl Store {
    pub fn new() -> Store {
        Store(Arc::new(Mutex::new(StoreState {
            map: BTreeMap::new(),
            log: vec![],
            fail: BTreeSet::new(),
            calls: 0,
            list_mode: DEFAULT_LIST_MODE.with(|d| d.borrow().clone()),
            list_calls: vec![],
            reads: 0,
        })))
    }
    pub fn from_map(map: BTreeMap<String, Vec<u8>>) -> Store {
        let s = Store::new();
        s.0.lock().unwrap().map = map;
        s
    }
    pub fn snapshot(&self) -> BTreeMap<String, Vec<u8>> {
        self.0.lock().unwrap().map.clone()
    }
    pub fn keys(&self) -> Vec<String> {
        self.0.lock().unwrap().map.keys().cloned().collect()
    }
    pub fn get(&self, k: &str) -> Option<Vec<u8>> {
        self.0.lock().unwrap().map.get(k).cloned()
    }
    /// raw injection (bypasses write-once: used by the harness to model file copies / damage)
    pub fn put_raw(&self, k: &str, v: Vec<u8>) {
        self.0.lock().unwrap().map.insert(k.to_string(), v);
    }
    pub fn put_if_absent(&self, k: &str, v: Vec<u8>) -> bool {
        let mut st = self.0.lock().unwrap();
        if st.map.contains_key(k) {
            false
        } else {
            st.map.insert(k.to_string(), v);
            true
        }
    }
    pub fn remove_raw(&self, k: &str) {
        self.0.lock().unwrap().map.remove(k);
    }
    pub fn set_map(&self, m: BTreeMap<String, Vec<u8>>) {
        self.0.lock().unwrap().map = m;
    }
    /// start a fresh write log; the given call indexes will fail
    pub fn arm(&self, fail: BTreeSet<usize>) {
        let mut st = self.0.lock().unwrap();
        st.log.clear();
        st.calls = 0;
        st.fail = fail;
    }
    pub fn take_log(&self) -> Vec<WriteRec> {
        let mut st = self.0.lock().unwrap();
        st.fail.clear();
        std::mem::take(&mut st.log)
    }
    pub fn log_len(&self) -> usize {
        self.0.lock().unwrap().log.len()
    }
    pub fn set_list_mode(&self, m: ListMode) {
        self.0.lock().unwrap().list_mode = m;
    }
    pub fn take_list_calls(&self) -> Vec<(String, usize)> {
        std::mem::take(&mut self.0.lock().unwrap().list_calls)
    }
    pub fn adapter(&self) -> Arc<RwLock<Box<dyn Adapter>>> {
        let b: Box<dyn Adapter> = Box::new(TraceAdapter { st: self.clone() });
        Arc::new(RwLock::new(b))
    }
}

pub struct TraceAdapter {
    pub st: Store,
}

impl Adapter for TraceAdapter {
    fn as_any(&self) -> &dyn Any {
        self
    }
    fn as_any_mut(&mut self) -> &mut dyn Any {
        self
    }
    fn read_object(&self, key: &str, offset: usize, length: usize) -> Result<Vec<u8>> {
        let mut st = self.st.0.lock().unwrap();
        st.reads += 1;
        let data = match st.map.get(key) {
            Some(d) => d,
            None => return Err(anyhow!("object not found: {}", key)),
        };
        if offset == 0 && length == 0 {
            Ok(data.clone())
        } else {
            if offset + length > data.len() {
                return Err(anyhow!("invalid slice range for key: {}", key));
            }
            Ok(data[offset..offset + length].to_vec())
        }
    }
    fn write_object(&self, key: &str, data: &[u8]) -> Result<()> {
        let mut st = self.st.0.lock().unwrap();
        let idx = st.calls;
        st.calls += 1;
        if st.fail.contains(&idx) {
            st.log.push(WriteRec {
                key: key.to_string(),
                bytes: data.to_vec(),
                outcome: WriteOutcome::Failed,
            });
            return Err(anyhow!("injected_write_failure"));
        }
        let outcome = match st.map.get(key) {
            Some(old) if old.as_slice() == data => WriteOutcome::SameIgnored,
            Some(_) => WriteOutcome::DiffIgnored,
            None => {
                st.map.insert(key.to_string(), data.to_vec());
                WriteOutcome::Stored
            }
        };
        st.log.push(WriteRec {
            key: key.to_string(),
            bytes: data.to_vec(),
            outcome,
        });
        Ok(())
    }
    fn list_objects(&self, ext: &str) -> Result<Vec<String>> {
        let mut st = self.st.0.lock().unwrap();
        let list: Vec<String> = st
            .map
            .keys()
            .filter(|x| x.ends_with(ext))
            .map(|x| x.strip_suffix(ext).unwrap().to_string())
            .collect();
        st.list_calls.push((ext.to_string(), list.len()));
        let n = list.len();
        let out = match &st.list_mode {
            ListMode::Sorted => list,
            ListMode::Reverse => list.into_iter().rev().collect(),
            ListMode::Rotate(k) => {
                if n == 0 {
                    list
                } else {
                    (0..n).map(|i| list[(i + k) % n].clone()).collect()
                }
            }
            ListMode::Perm(p) => {
                if p.len() == n {
                    p.iter().map(|&i| list[i].clone()).collect()
                } else {
                    list
                }
            }
        };
        Ok(out)
    }
}
