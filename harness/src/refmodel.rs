//! Independent reference functions: raw block / pack parsing, causal completeness, naming rules.
//! None of this uses Melda's loader; it works on raw bytes with serde_json and sha256 only.
use crate::world::sha_hex;
use serde_json::Value;
use std::collections::{BTreeMap, BTreeSet};

#[derive(Clone, Debug)]
pub struct RawBlock {
    pub id: String, // "<idx>-<hex>"
    pub index: u64,
    pub digest: String,
    pub parents: Vec<String>,
    pub packs: Vec<String>,
    pub info: Option<Value>,
    /// (uuid, prev revision string or None, digest)
    pub changes: Vec<(String, Option<String>, String)>,
    pub json: Value,
}

pub fn parse_block_name(name: &str) -> Option<(u64, String)> {
    let (i, d) = name.split_once('-')?;
    if i.is_empty() || !i.bytes().all(|b| b.is_ascii_digit()) {
        return None;
    }
    if d.is_empty() || !d.bytes().all(|b| b.is_ascii_alphanumeric() || b == b'_') {
        return None;
    }
    Some((i.parse().ok()?, d.to_string()))
}

/// Parses a raw block file. Returns None if the item cannot be a valid block on its own
/// (name/hash mismatch, not JSON, malformed fields, index inconsistent with parents).
pub fn parse_block(key: &str, bytes: &[u8]) -> Option<RawBlock> {
    let name = key.strip_suffix(".delta")?;
    let (index, digest) = parse_block_name(name)?;
    if sha_hex(bytes) != digest {
        return None;
    }
    let s = std::str::from_utf8(bytes).ok()?;
    let json: Value = serde_json::from_str(s).ok()?;
    let o = json.as_object()?;
    let mut parents = vec![];
    if let Some(p) = o.get("p") {
        for x in p.as_array()? {
            parents.push(x.as_str()?.to_string());
        }
    }
    let mut max = 0;
    for p in &parents {
        let (i, _) = parse_block_name(p)?;
        max = max.max(i);
    }
    if index != max + 1 {
        return None;
    }
    let mut packs = vec![];
    if let Some(k) = o.get("k") {
        for x in k.as_array()? {
            packs.push(x.as_str()?.to_string());
        }
    }
    let info = match o.get("i") {
        Some(i) => {
            if !i.is_object() {
                return None;
            }
            Some(i.clone())
        }
        None => None,
    };
    let mut changes = vec![];
    if let Some(c) = o.get("c") {
        if let Some(arr) = c.as_array() {
            for rec in arr {
                if let Some(rec) = rec.as_array() {
                    match rec.len() {
                        2 => changes.push((
                            rec[0].as_str()?.to_string(),
                            None,
                            rec[1].as_str()?.to_string(),
                        )),
                        3 => {
                            changes.push((
                                rec[0].as_str()?.to_string(),
                                Some(rec[1].as_str()?.to_string()),
                                rec[2].as_str()?.to_string(),
                            ))
                        }
                        _ => return None,
                    }
                }
            }
        }
    }
    if parents.is_empty() {
        // origin block: an update record is only acceptable on top of a revision introduced
        // by the same block
        for (uuid, prev, _) in &changes {
            if let Some(prev) = prev {
                let ok = changes.iter().any(|(u, p2, d2)| {
                    u == uuid && {
                        let idx = match p2 {
                            None => 1,
                            Some(p) => p.split_once('-').and_then(|(i, _)| i.parse::<u64>().ok()).unwrap_or(0) + 1,
                        };
                        let tail = p2.as_ref().map(|p| sha_hex(p.as_bytes())[..7].to_string());
                        let s = match tail {
                            Some(t) if idx > 1 => format!("{}-{}_{}", idx, d2, t),
                            _ => format!("{}-{}", idx, d2),
                        };
                        &s == prev
                    }
                });
                if !ok {
                    return None;
                }
            }
        }
    }
    Some(RawBlock {
        id: name.to_string(),
        index,
        digest,
        parents,
        packs,
        info,
        changes,
        json,
    })
}

/// Splits the bytes of a pack (`[obj,obj,...]`) into its top-level elements with a
/// string/escape-aware scanner. Returns (offset, length) of every top-level element.
pub fn pack_elements(bytes: &[u8]) -> Option<Vec<(usize, usize)>> {
    let mut out = vec![];
    let mut depth = 0usize;
    let mut in_str = false;
    let mut esc = false;
    let mut start = 0usize;
    if bytes.first() != Some(&b'[') || bytes.last() != Some(&b']') {
        return None;
    }
    for (i, &c) in bytes.iter().enumerate() {
        if in_str {
            if esc {
                esc = false;
            } else if c == b'\\' {
                esc = true;
            } else if c == b'"' {
                in_str = false;
            }
            continue;
        }
        match c {
            b'"' => {
                in_str = true;
                if depth == 1 && start == 0 {
                    start = i;
                }
            }
            b'[' | b'{' => {
                depth += 1;
                if depth == 2 && start == 0 {
                    start = i;
                }
            }
            b']' | b'}' => {
                if depth == 0 {
                    return None;
                }
                if depth == 1 {
                    // closing the pack
                    if start != 0 {
                        out.push((start, i - start));
                        start = 0;
                    }
                }
                depth -= 1;
            }
            b',' => {
                if depth == 1 && start != 0 {
                    out.push((start, i - start));
                    start = 0;
                }
            }
            b' ' | b'\n' | b'\t' | b'\r' => {}
            _ => {
                if depth == 1 && start == 0 {
                    start = i;
                }
            }
        }
    }
    if depth != 0 || in_str {
        return None;
    }
    Some(out)
}

/// digests of the objects a valid pack provides
pub fn pack_objects(key: &str, bytes: &[u8]) -> Option<BTreeSet<String>> {
    let name = key.strip_suffix(".pack")?;
    if sha_hex(bytes) != name {
        return None;
    }
    let els = pack_elements(bytes)?;
    Some(
        els.iter()
            .filter(|(o, _)| bytes[*o] == b'{')
            .map(|(o, l)| sha_hex(&bytes[*o..*o + *l]))
            .collect(),
    )
}

pub fn is_special_digest(d: &str) -> bool {
    d == "d" || d == "r" || d == "e" || (d.len() <= 8 && u32::from_str_radix(d, 16).is_ok())
}

/// digest part of a revision string "<idx>-<digest>[_<tail>]"
pub fn rev_digest(rev: &str) -> Option<String> {
    let (_, rest) = rev.split_once('-')?;
    // greedy digest (\w+ includes '_'), tail is after the LAST underscore if index > 1
    match rest.rsplit_once('_') {
        Some((d, _t)) => Some(d.to_string()),
        None => Some(rest.to_string()),
    }
}

pub struct Analysis {
    pub blocks: BTreeMap<String, RawBlock>,
    pub invalid_blocks: BTreeSet<String>,
    pub valid_packs: BTreeMap<String, BTreeSet<String>>,
    pub invalid_packs: BTreeSet<String>,
    pub complete: BTreeSet<String>,
    pub objects: BTreeSet<String>,
}

/// Analyses a raw store: which blocks are causally complete
pub fn analyse(store: &BTreeMap<String, Vec<u8>>) -> Analysis {
    let mut blocks = BTreeMap::new();
    let mut invalid_blocks = BTreeSet::new();
    let mut valid_packs = BTreeMap::new();
    let mut invalid_packs = BTreeSet::new();
    let mut objects = BTreeSet::new();
    for (k, v) in store {
        if k.ends_with(".delta") {
            match parse_block(k, v) {
                Some(b) => {
                    blocks.insert(b.id.clone(), b);
                }
                None => {
                    invalid_blocks.insert(k.clone());
                }
            }
        } else if k.ends_with(".pack") {
            match pack_objects(k, v) {
                Some(objs) => {
                    objects.extend(objs.iter().cloned());
                    valid_packs.insert(k.strip_suffix(".pack").unwrap().to_string(), objs);
                }
                None => {
                    invalid_packs.insert(k.clone());
                }
            }
        }
    }
    // fix-point
    let mut complete: BTreeSet<String> = BTreeSet::new();
    loop {
        let mut changed = false;
        for (id, b) in &blocks {
            if complete.contains(id) {
                continue;
            }
            let parents_ok = b.parents.iter().all(|p| complete.contains(p));
            let packs_ok = b.packs.iter().all(|p| valid_packs.contains_key(p));
            let objs_ok = b.changes.iter().all(|(_, prev, d)| {
                (is_special_digest(d) || objects.contains(d))
                    && prev.as_ref().is_none_or(|p| {
                        rev_digest(p).is_some_and(|pd| is_special_digest(&pd) || objects.contains(&pd))
                    })
            });
            if parents_ok && packs_ok && objs_ok {
                complete.insert(id.clone());
                changed = true;
            }
        }
        if !changed {
            break;
        }
    }
    Analysis {
        blocks,
        invalid_blocks,
        valid_packs,
        invalid_packs,
        complete,
        objects,
    }
}

/// The sub-store made of the complete blocks plus every valid pack
pub fn complete_substore(store: &BTreeMap<String, Vec<u8>>) -> BTreeMap<String, Vec<u8>> {
    let a = analyse(store);
    store
        .iter()
        .filter(|(k, _)| {
            if let Some(n) = k.strip_suffix(".delta") {
                a.complete.contains(n)
            } else if let Some(n) = k.strip_suffix(".pack") {
                a.valid_packs.contains_key(n)
            } else {
                true
            }
        })
        .map(|(k, v)| (k.clone(), v.clone()))
        .collect()
}
