//! Engine H: explicit-state breadth-first exploration of operation histories over real replicas.
use crate::guard::{note_ctx, set_skip, Exec, Outcome};
use crate::world::{hist_str, KeyOpts, Menu, Op, OpOut, World};
use serde_json::{json, Value};
use std::collections::{BTreeMap, BTreeSet, HashSet};
use std::sync::atomic::{AtomicUsize, Ordering};
use std::sync::{Arc, Mutex};
use std::time::{Duration, Instant};

#[derive(Clone)]
pub struct Scenario {
    pub name: String,
    pub nrep: usize,
    pub menu: Arc<Menu>,
    pub prologue: Vec<Op>,
    pub alphabet: Vec<Op>,
    pub key_opts: KeyOpts,
    pub max_depth: usize,
    pub track: bool,
    /// hash-iteration order under which the whole exploration runs (None = sorted)
    pub order: Option<melda::verif_hooks::order::Mode>,
}

impl Scenario {
    pub fn build(&self, hist: &[Op]) -> World {
        World::build_tracked(self.nrep, self.menu.clone(), hist, self.track)
    }
    pub fn describe(&self) -> Value {
        json!({
            "name": self.name,
            "replicas": self.nrep,
            "prologue": hist_str(&self.prologue),
            "alphabet": self.alphabet.iter().map(|o| o.short()).collect::<Vec<_>>(),
            "docs": self.menu.docs,
            "infos": self.menu.infos,
            "max_depth": self.max_depth,
            "hash_iteration_order": format!("{:?}", self.order),
        })
    }
}

#[derive(Clone, Debug)]
pub struct Violation {
    pub property: String,
    /// stable, specific signature (used to match known findings)
    pub signature: String,
    pub scenario: String,
    pub history: Vec<Op>,
    pub detail: Value,
}

impl Violation {
    pub fn to_json(&self) -> Value {
        json!({
            "property": self.property,
            "signature": self.signature,
            "scenario": self.scenario,
            "history": self.history,
            "history_text": hist_str(&self.history),
            "detail": self.detail,
        })
    }
}

#[derive(Default)]
pub struct Cx {
    pub violations: Vec<Violation>,
    pub counters: BTreeMap<String, u64>,
    pub outcomes: BTreeSet<String>,
    pub samples: Vec<Value>,
}

impl Cx {
    pub fn count(&mut self, k: &str) {
        *self.counters.entry(k.to_string()).or_insert(0) += 1;
    }
    pub fn add(&mut self, k: &str, n: u64) {
        *self.counters.entry(k.to_string()).or_insert(0) += n;
    }
    pub fn outcome(&mut self, o: String) {
        if self.outcomes.len() < 200_000 {
            self.outcomes.insert(o);
        }
    }
    pub fn sample(&mut self, v: Value) {
        if self.samples.len() < 3 {
            self.samples.push(v);
        }
    }
    pub fn violation(
        &mut self,
        property: &str,
        signature: &str,
        sc: &Scenario,
        history: &[Op],
        detail: Value,
    ) {
        let mut detail = detail;
        if let Some(o) = detail.as_object_mut() {
            o.insert(
                "menu".to_string(),
                json!({"docs": sc.menu.docs, "infos": sc.menu.infos, "replicas": sc.nrep, "hash_order_reversed": sc.order.is_some(), "track": sc.track}),
            );
        }
        self.violations.push(Violation {
            property: property.to_string(),
            signature: signature.to_string(),
            scenario: sc.name.clone(),
            history: history.to_vec(),
            detail,
        });
    }
    pub fn merge(&mut self, o: Cx) {
        self.violations.extend(o.violations);
        for (k, v) in o.counters {
            *self.counters.entry(k).or_insert(0) += v;
        }
        for x in o.outcomes {
            self.outcome(x);
        }
        for s in o.samples {
            self.sample(s);
        }
    }
}

pub trait Probe: Send + Sync {
    /// evaluated once for every distinct state (hist is the representative history reaching it)
    fn on_state(&self, _sc: &Scenario, _hist: &[Op], _cx: &mut Cx) {}
    /// evaluated for every transition; `pre` is a world rebuilt at `hist` (before the op),
    /// `post` is the world after the op.
    fn on_transition(
        &self,
        _sc: &Scenario,
        _hist: &[Op],
        _op: &Op,
        _pre: &World,
        _out: &OpOut,
        _post: &World,
        _cx: &mut Cx,
    ) {
    }
    /// whether on_transition needs a separately built pre-world
    fn needs_pre(&self) -> bool {
        false
    }
}

#[derive(Clone, Debug)]
pub struct Limits {
    pub max_states: usize,
    pub time_budget: Duration,
    pub workers: usize,
    pub pool_size: usize,
    pub stop_on_violation: bool,
}

impl Default for Limits {
    fn default() -> Self {
        Limits {
            max_states: 1_000_000,
            time_budget: Duration::from_secs(3600),
            workers: std::env::var("MV_WORKERS")
                .ok()
                .and_then(|s| s.parse().ok())
                .unwrap_or(16),
            pool_size: 1,
            stop_on_violation: true,
        }
    }
}

#[derive(Default, Clone, Debug)]
pub struct Stats {
    pub states: usize,
    pub transitions: usize,
    pub not_enabled: usize,
    pub layers: Vec<(usize, usize, bool)>, // (depth, states expanded at this depth, complete)
    pub deepest_complete: usize,
    pub capped: Option<String>,
    pub panics: usize,
    pub hangs: usize,
    pub terminal: usize,
    pub sample_histories: Vec<String>,
}

struct TaskOut {
    succs: Vec<(Op, String, bool)>,
    transitions: usize,
    not_enabled: usize,
    events: Vec<(Vec<Op>, OpOut)>,
    cx: Cx,
}

fn expand(sc: &Scenario, probes: &[Arc<dyn Probe>], hist: &[Op], leaf: bool) -> TaskOut {
    note_ctx(&hist_str(hist));
    // (thread-local: with a rayon pool of size 1 all work of this task runs on this thread)
    melda::verif_hooks::order::set_thread_source(sc.order.clone().map(melda::verif_hooks::order::Source::new));
    let mut cx = Cx::default();
    for p in probes {
        p.on_state(sc, hist, &mut cx);
    }
    let mut out = TaskOut {
        succs: vec![],
        transitions: 0,
        not_enabled: 0,
        events: vec![],
        cx,
    };
    if leaf {
        return out;
    }
    let needs_pre = probes.iter().any(|p| p.needs_pre());
    for op in &sc.alphabet {
        let mut w = sc.build(hist);
        if w.any_dead() {
            break;
        }
        let o = w.apply(op);
        if let OpOut::NotEnabled(_) = o {
            out.not_enabled += 1;
            continue;
        }
        out.transitions += 1;
        if matches!(o, OpOut::Panic(_) | OpOut::Hang(_)) {
            let mut h = hist.to_vec();
            h.push(op.clone());
            out.events.push((h, o.clone()));
        }
        if !probes.is_empty() {
            let pre = if needs_pre { sc.build(hist) } else { World::new(0, sc.menu.clone()) };
            for p in probes {
                p.on_transition(sc, hist, op, &pre, &o, &w, &mut out.cx);
            }
        }
        let key = w.key(&sc.key_opts);
        out.succs.push((op.clone(), key, w.any_dead()));
    }
    out
}

pub struct Explorer {
    pub sc: Scenario,
    pub probes: Vec<Arc<dyn Probe>>,
    pub limits: Limits,
}

pub struct Exploration {
    pub stats: Stats,
    pub cx: Cx,
    /// panics / hangs observed on transitions: (history, outcome)
    pub events: Vec<(Vec<Op>, OpOut)>,
    /// one representative history for every distinct state (only when requested)
    pub states: Vec<Vec<Op>>,
}

impl Explorer {
    pub fn run(&self, keep_states: bool) -> Exploration {
        let t0 = Instant::now();
        let sc = Arc::new(self.sc.clone());
        let probes = self.probes.clone();
        let mut seen: HashSet<String> = HashSet::new();
        let mut stats = Stats::default();
        let mut cx = Cx::default();
        let mut events = vec![];
        let mut all_states = vec![];
        // initial state
        let init_hist = sc.prologue.clone();
        {
            melda::verif_hooks::order::set_thread_source(sc.order.clone().map(melda::verif_hooks::order::Source::new));
            let w = sc.build(&init_hist);
            melda::verif_hooks::order::set_thread_source(None);
            seen.insert(w.key(&sc.key_opts));
        }
        let mut frontier: Vec<Vec<Op>> = vec![init_hist];
        let mut depth = 0usize;
        let mut stop = false;
        let mut frontier_truncated = false;
        while !frontier.is_empty() && !stop {
            let leaf = depth >= sc.max_depth;
            let n = frontier.len();
            let next_idx = AtomicUsize::new(0);
            let results: Mutex<Vec<(usize, TaskOut, Vec<(String, String)>)>> = Mutex::new(vec![]);
            let frontier_ref = &frontier;
            let deadline = t0 + self.limits.time_budget;
            let timed_out = AtomicUsize::new(0);
            // calls that did not return are expensive (one watchdog period each, and the executor's threads are
            // lost): after HANG_CAP of them in one layer the layer is abandoned and the run reported as capped
            const HANG_CAP: usize = 24;
            let hang_count = AtomicUsize::new(0);
            std::thread::scope(|s| {
                for _ in 0..self.limits.workers.min(n).max(1) {
                    s.spawn(|| {
                        let mut ex = Exec::new(self.limits.pool_size);
                        loop {
                            if Instant::now() > deadline || hang_count.load(Ordering::SeqCst) >= HANG_CAP {
                                timed_out.store(1, Ordering::SeqCst);
                                break;
                            }
                            let i = next_idx.fetch_add(1, Ordering::SeqCst);
                            if i >= n {
                                break;
                            }
                            let hist = frontier_ref[i].clone();
                            let mut skip: Vec<String> = vec![];
                            let mut hangs: Vec<(String, String)> = vec![];
                            loop {
                                let sc2 = sc.clone();
                                let pr2 = probes.clone();
                                let h2 = hist.clone();
                                let sk = skip.clone();
                                let r = ex.run(move || {
                                    set_skip(&sk);
                                    expand(&sc2, &pr2, &h2, leaf)
                                });
                                match r {
                                    Outcome::Done(t) => {
                                        results.lock().unwrap().push((i, t, hangs));
                                        break;
                                    }
                                    Outcome::Panic(msg) => {
                                        // a panic that escaped the per-call guards is a harness bug
                                        eprintln!(
                                            "MACHINERY: task panicked outside guarded calls: {} (history {})",
                                            msg,
                                            hist_str(&hist)
                                        );
                                        std::process::exit(2);
                                    }
                                    Outcome::Hang(ctx, label) => {
                                        hang_count.fetch_add(1, Ordering::SeqCst);
                                        hangs.push((ctx, label.clone()));
                                        if skip.contains(&label) || skip.len() > 50 {
                                            eprintln!("MACHINERY: repeated hang at {}", label);
                                            std::process::exit(2);
                                        }
                                        skip.push(label);
                                    }
                                }
                            }
                        }
                    });
                }
            });
            let mut results = results.into_inner().unwrap();
            results.sort_by_key(|r| r.0);
            let complete = results.len() == n && !frontier_truncated;
            stats.layers.push((depth, results.len(), complete));
            if complete {
                stats.deepest_complete = depth;
            }
            if timed_out.load(Ordering::SeqCst) == 1 {
                stats.capped = Some(if hang_count.load(Ordering::SeqCst) >= HANG_CAP {
                    format!("{} calls did not return while expanding depth {}: layer abandoned ({} of {} states expanded)", hang_count.load(Ordering::SeqCst), depth, results.len(), n)
                } else {
                    format!(
                        "time budget {:?} hit while expanding depth {} ({} of {} states expanded)",
                        self.limits.time_budget,
                        depth,
                        results.len(),
                        n
                    )
                });
                stop = true;
            }
            let mut next: Vec<Vec<Op>> = vec![];
            for (i, t, hangs) in results {
                stats.states += 1;
                if keep_states {
                    all_states.push(frontier[i].clone());
                }
                if stats.sample_histories.len() < 3 && depth >= 2 {
                    stats.sample_histories.push(hist_str(&frontier[i]));
                }
                stats.transitions += t.transitions;
                stats.not_enabled += t.not_enabled;
                stats.hangs += hangs.len();
                for (h, o) in t.events {
                    if o.is_panic() {
                        stats.panics += 1;
                    }
                    events.push((h, o));
                }
                for (ctx, label) in hangs {
                    events.push((frontier[i].clone(), OpOut::Hang(format!("{} @ {}", label, ctx))));
                }
                cx.merge(t.cx);
                for (op, key, dead) in t.succs {
                    if seen.insert(key) {
                        let mut h = frontier[i].clone();
                        h.push(op);
                        if dead {
                            stats.terminal += 1;
                            stats.states += 1;
                        } else {
                            next.push(h);
                        }
                    }
                }
            }
            if self.limits.stop_on_violation && !cx.violations.is_empty() {
                stats.capped = Some("stopped at first layer with violations".to_string());
                break;
            }
            if leaf {
                break;
            }
            if stats.states + next.len() > self.limits.max_states {
                let keep = self.limits.max_states.saturating_sub(stats.states);
                stats.capped = Some(format!(
                    "state cap {} hit: depth {} truncated from {} to {} states",
                    self.limits.max_states,
                    depth + 1,
                    next.len(),
                    keep
                ));
                next.truncate(keep);
                frontier_truncated = true;
            }
            frontier = next;
            depth += 1;
        }
        Exploration {
            stats,
            cx,
            events,
            states: all_states,
        }
    }
}

pub fn stats_json(s: &Stats) -> Value {
    json!({
        "states": s.states,
        "transitions": s.transitions,
        "not_enabled_skipped": s.not_enabled,
        "layers": s.layers.iter().map(|(d,n,c)| json!({"depth": d, "states_expanded": n, "complete": c})).collect::<Vec<_>>(),
        "deepest_complete_layer": s.deepest_complete,
        "capped": s.capped,
        "panics_observed": s.panics,
        "hangs_observed": s.hangs,
        "terminal_states": s.terminal,
        "sample_histories": s.sample_histories,
    })
}
