//! C06 — concurrent edits of a flattened array merge without loss or duplication.
use super::common::*;
use crate::explore::*;
use crate::menu::*;
use crate::report::Report;
use crate::world::*;
use melda::verif_hooks::merge_arrays;
use rayon::prelude::*;
use serde_json::{json, Value};
use std::collections::{BTreeMap, BTreeSet};
use std::sync::atomic::{AtomicU64, Ordering};
use std::sync::{Arc, Mutex};

/// all duplicate-free sequences over k ids up to length l
pub fn sequences(k: usize, l: usize) -> Vec<Vec<u8>> {
    let mut out: Vec<Vec<u8>> = vec![vec![]];
    let mut layer: Vec<Vec<u8>> = vec![vec![]];
    for _ in 0..l {
        let mut next = vec![];
        for s in &layer {
            for a in 0..k as u8 {
                if !s.contains(&a) {
                    let mut t = s.clone();
                    t.push(a);
                    next.push(t);
                }
            }
        }
        out.extend(next.iter().cloned());
        layer = next;
    }
    out
}

fn vals(s: &[u8]) -> Vec<Value> {
    s.iter().map(|c| Value::from(((b'a' + c) as char).to_string())).collect()
}

fn unvals(v: &[Value]) -> Vec<u8> {
    v.iter().map(|x| x.as_str().unwrap().as_bytes()[0] - b'a').collect()
}

fn is_subsequence_order(result: &[u8], of: &[u8]) -> bool {
    // the elements of `of` appear in `result` in the same relative order
    let pos: Vec<Option<usize>> = of.iter().map(|e| result.iter().position(|x| x == e)).collect();
    let mut last = None;
    for p in pos {
        match p {
            None => return false,
            Some(p) => {
                if let Some(l) = last {
                    if p <= l {
                        return false;
                    }
                }
                last = Some(p);
            }
        }
    }
    true
}

fn consistent(m: &[u8], n: &[u8]) -> bool {
    let common_m: Vec<u8> = m.iter().filter(|e| n.contains(e)).cloned().collect();
    let common_n: Vec<u8> = n.iter().filter(|e| m.contains(e)).cloned().collect();
    common_m == common_n
}

fn check_merge(m: &[u8], n: &[u8], result: &[u8]) -> Option<&'static str> {
    let set: BTreeSet<u8> = result.iter().cloned().collect();
    if set.len() != result.len() {
        return Some("duplicate element");
    }
    let want: BTreeSet<u8> = m.iter().chain(n.iter()).cloned().collect();
    if set != want {
        return Some("result is not the union");
    }
    if !is_subsequence_order(result, n) {
        return Some("relative order of the base version not kept");
    }
    if consistent(m, n) && !is_subsequence_order(result, m) {
        return Some("relative order of the merged version not kept although the versions agree");
    }
    None
}

pub fn merge_sweep(rep: &mut Report, thorough: bool) {
    let (k, l) = if thorough { (6, 5) } else { (5, 4) };
    let seqs = sequences(k, l);
    let pairs = AtomicU64::new(0);
    let bad: Mutex<Vec<Value>> = Mutex::new(vec![]);
    let outcomes = AtomicU64::new(0);
    seqs.par_iter().for_each(|m| {
        for n in &seqs {
            pairs.fetch_add(1, Ordering::Relaxed);
            let mut base = vals(n);
            let r = crate::guard::call("merge_arrays", || merge_arrays(&vals(m), &mut base));
            let res = unvals(&base);
            if res != *n {
                outcomes.fetch_add(1, Ordering::Relaxed);
            }
            let err = match r {
                Err(p) => Some(format!("panic: {}", p)),
                Ok(()) => check_merge(m, n, &res).map(|s| s.to_string()),
            };
            if let Some(e) = err {
                let mut b = bad.lock().unwrap();
                if b.len() < 3 {
                    b.push(json!({"input": {"m": m, "n": n}, "result": res, "error": e}));
                }
            }
        }
    });
    // triples folded the way the reader folds the live leaves into the winner's order
    let (k3, l3) = if thorough { (4, 4) } else { (4, 3) };
    let s3 = sequences(k3, l3);
    let triples = AtomicU64::new(0);
    s3.par_iter().for_each(|w| {
        for a in &s3 {
            for b2 in &s3 {
                triples.fetch_add(1, Ordering::Relaxed);
                let mut base = vals(w);
                // leaves in ascending order, the winner (greatest) last
                merge_arrays(&vals(a), &mut base);
                merge_arrays(&vals(b2), &mut base);
                merge_arrays(&vals(w), &mut base);
                let res = unvals(&base);
                let set: BTreeSet<u8> = res.iter().cloned().collect();
                let want: BTreeSet<u8> = w.iter().chain(a.iter()).chain(b2.iter()).cloned().collect();
                let err = if set.len() != res.len() {
                    Some("duplicate element")
                } else if set != want {
                    Some("result is not the union")
                } else if !is_subsequence_order(&res, w) {
                    Some("relative order of the winning version not kept")
                } else {
                    None
                };
                if let Some(e) = err {
                    let mut b = bad.lock().unwrap();
                    if b.len() < 3 {
                        b.push(json!({"input": {"winner": w, "leaf1": a, "leaf2": b2}, "result": res, "error": e}));
                    }
                }
            }
        }
    });
    let b = bad.into_inner().unwrap();
    for d in &b {
        rep.violations.push(Violation { property: "C06".into(), signature: format!("C06:merge_arrays:{}", d["error"].as_str().unwrap_or("?")), scenario: "merge-sweep".into(), history: vec![], detail: d.clone() });
    }
    let p = pairs.load(Ordering::Relaxed);
    let t = triples.load(Ordering::Relaxed);
    rep.add_u64("evaluations", p + t);
    rep.set("merge_sweep", json!({"ids": k, "max_len": l, "sequences": seqs.len(), "ordered_pairs": p, "pairs_changing_base": outcomes.load(Ordering::Relaxed), "triple_ids": k3, "triple_max_len": l3, "triples": t, "failing": b.len()}));
    rep.push_sample(json!({"merge_pair": {"m": seqs[seqs.len() / 3], "n": seqs[seqs.len() / 2]}}));
}

/// ids (strings) of the elements of a flattened array in a read document
fn ids_of(v: &Value) -> Vec<String> {
    v.as_array().map(|a| a.iter().filter_map(|e| e.get("_id").and_then(|i| i.as_str()).map(|s| s.to_string()).or_else(|| e.as_str().map(|s| format!("!{}", s)))).collect()).unwrap_or_default()
}

fn all_ids_of(v: &Value, out: &mut Vec<String>) {
    match v {
        Value::Object(o) => {
            if let Some(id) = o.get("_id").and_then(|i| i.as_str()) {
                out.push(id.to_string());
            }
            for (k, val) in o {
                if k.ends_with('\u{266D}') {
                    all_ids_of(val, out);
                }
            }
        }
        Value::Array(a) => a.iter().for_each(|e| match e {
            // plain strings inside flattened arrays, written "!<string>" like in the recorded versions
            Value::String(s) => out.push(format!("!{}", s)),
            _ => all_ids_of(e, out),
        }),
        _ => {}
    }
}

pub struct MergeProbe;

impl Probe for MergeProbe {
    fn on_state(&self, sc: &Scenario, hist: &[Op], cx: &mut Cx) {
        let w = sc.build(hist);
        if w.any_dead() {
            return;
        }
        for r in 0..sc.nrep {
            w.focus();
            let m = &w.reps[r].m;
            let rd = read_doc(m);
            let Some(doc) = rd.get("ok") else { continue };
            let Ok(rootv) = m.get_value("\u{221A}", None) else { continue };
            // (plain strings, written "!<string>", cannot be deleted)
            let deleted = |id: &str| -> bool { !id.starts_with('!') && m.get_winner(id).map(|w| w.contains("-d_")).unwrap_or(true) };
            let mut all_ids: Vec<String> = vec![];
            let mut expected_all: BTreeSet<String> = BTreeSet::new();
            let mut multi = false;
            for (key, refv) in rootv.iter() {
                let Some(duuid) = refv.as_str().filter(|s| s.starts_with('^')) else { continue };
                let Some(leafs) = m.verif_leafs(duuid) else { continue };
                let Ok(winner) = m.get_winner(duuid) else { continue };
                if winner.contains("-d_") {
                    continue;
                }
                let mut versions: BTreeMap<String, Vec<String>> = BTreeMap::new();
                for l in &leafs {
                    // ground truth (the array submitted when the revision was created) where the harness
                    // has it, else the replica's own reconstruction
                    if l.contains("-d_") {
                        // a deletion of the array contributes no elements
                        versions.insert(l.clone(), vec![]);
                    } else if let Some(t) = w.truth.get(&(duuid.to_string(), l.clone())) {
                        versions.insert(l.clone(), t.clone());
                    } else if let Ok(o) = m.verif_array_order(duuid, l) {
                        versions.insert(l.clone(), o.iter().filter_map(|x| x.as_str().map(|s| s.to_string())).collect());
                    }
                }
                if leafs.len() > 1 {
                    multi = true;
                }
                let got = ids_of(&doc[key]);
                let in_some: BTreeSet<String> = versions.values().flatten().cloned().collect();
                cx.count("array_checks");
                // membership of this array
                for id in &got {
                    if !in_some.contains(id) {
                        cx.violation("C06", "C06:element-not-in-any-concurrent-version", sc, hist, json!({"replica": r, "array": key, "element": id, "versions": versions, "read": doc}));
                        return;
                    }
                    if deleted(id) {
                        cx.violation("C06", "C06:deleted-element-reappeared", sc, hist, json!({"replica": r, "array": key, "element": id, "read": doc}));
                        return;
                    }
                }
                // winner's relative order kept
                let wv: Vec<String> = versions.get(&winner).cloned().unwrap_or_default().into_iter().filter(|id| got.contains(id)).collect();
                let gw: Vec<String> = got.iter().filter(|id| wv.contains(id)).cloned().collect();
                if wv != gw {
                    cx.violation("C06", "C06:winner-order-not-kept", sc, hist, json!({"replica": r, "array": key, "winner_version": versions.get(&winner), "read_array": got}));
                    return;
                }
                // agreeing versions keep their order
                let vv: Vec<&Vec<String>> = versions.values().collect();
                let agree = vv.iter().all(|a| vv.iter().all(|b| {
                    let ca: Vec<&String> = a.iter().filter(|e| b.contains(e)).collect();
                    let cb: Vec<&String> = b.iter().filter(|e| a.contains(e)).collect();
                    ca == cb
                }));
                if agree {
                    for v in versions.values() {
                        let vf: Vec<&String> = v.iter().filter(|id| got.contains(id)).collect();
                        let gf: Vec<&String> = got.iter().filter(|id| v.contains(id)).collect();
                        if vf != gf {
                            cx.violation("C06", "C06:agreeing-version-order-not-kept", sc, hist, json!({"replica": r, "array": key, "versions": versions, "read_array": got}));
                            return;
                        }
                    }
                }
                expected_all.extend(in_some.into_iter().filter(|id| !deleted(id)));
                all_ids.extend(got);
            }
            if multi {
                cx.outcome(sha_hex(doc.to_string().as_bytes()));
                cx.count("states_with_array_conflict");
            }
            // whole document (nested flattened arrays and fields included): no tracked object twice, and no
            // flattened array replaced by null although its owner is shown
            {
                let mut ids = vec![];
                fn walk(v: &Value, ids: &mut Vec<String>, nulls: &mut Vec<String>) {
                    match v {
                        Value::Object(o) => {
                            if let Some(id) = o.get("_id").and_then(|i| i.as_str()) {
                                ids.push(id.to_string());
                            }
                            for (k, val) in o {
                                if k.ends_with('\u{266D}') {
                                    if val.is_null() && k.starts_with("sub") {
                                        nulls.push(k.clone());
                                    }
                                    walk(val, ids, nulls);
                                }
                            }
                        }
                        Value::Array(a) => a.iter().for_each(|e| walk(e, ids, nulls)),
                        _ => {}
                    }
                }
                let mut nulls = vec![];
                walk(doc, &mut ids, &mut nulls);
                let uniq: BTreeSet<&String> = ids.iter().collect();
                cx.count("whole_document_uniqueness");
                if uniq.len() != ids.len() {
                    cx.violation("C06", "C06:object-appears-more-than-once-in-the-document", sc, hist, json!({"replica": r, "ids": ids, "read": doc}));
                    return;
                }
                if !nulls.is_empty() {
                    cx.violation("C06", "C06:nested-array-shown-as-null", sc, hist, json!({"replica": r, "read": doc}));
                    return;
                }
            }
            let set: BTreeSet<String> = all_ids.iter().cloned().collect();
            cx.count("document_checks");
            if set.len() != all_ids.len() {
                cx.violation("C06", "C06:element-appears-more-than-once", sc, hist, json!({"replica": r, "read": doc}));
                return;
            }
            // every live element of some version of a root-level array is shown somewhere in the document
            // (in that array, or in exactly one other - possibly nested - array it was moved to)
            let anywhere: BTreeSet<String> = {
                let mut ids = vec![];
                all_ids_of(doc, &mut ids);
                ids.into_iter().collect()
            };
            if !expected_all.is_subset(&anywhere) || !set.is_subset(&expected_all) {
                cx.violation("C06", "C06:live-element-of-some-version-missing", sc, hist, json!({"replica": r, "present_in_root_arrays": set, "present_anywhere": anywhere, "expected": expected_all, "read": doc}));
                return;
            }
        }
        // Presence after a complete exchange, independent of how arrays are stored: when every replica holds the same
        // items and nothing is staged, every tracked object that is alive and occurs in the document some replica
        // last committed occurs in the merged document (histories with explicit resolutions, time travel or
        // object-level removals are left to the clauses above)
        {
            fn collect_ids(v: &Value, out: &mut BTreeSet<String>) {
                match v {
                    Value::Object(o) => {
                        if let Some(id) = o.get("_id").and_then(|x| x.as_str()) {
                            out.insert(id.to_string());
                        }
                        for (k, val) in o {
                            if k.ends_with('\u{266D}') {
                                collect_ids(val, out);
                            }
                        }
                    }
                    Value::Array(a) => a.iter().for_each(|e| collect_ids(e, out)),
                    _ => {}
                }
            }
            let plain = !hist.iter().any(|o| matches!(o, Op::Resolve(..) | Op::Travel(..) | Op::ObjRemove(..) | Op::ObjDel(..) | Op::StageReplay(..) | Op::StageReplayFrom(..) | Op::Snapshot(..) | Op::Attach(..)));
            let n = sc.nrep;
            let stores: Vec<RawStore> = (0..n).map(|q| w.reps[q].store.snapshot()).collect();
            let synced = (1..n).all(|q| stores[q] == stores[0]) && (0..n).all(|q| !has_staging(&w.reps[q].m));
            if plain && synced && n >= 2 {
                let mut submitted: BTreeSet<String> = BTreeSet::new();
                let mut keys_of: BTreeMap<String, BTreeSet<String>> = BTreeMap::new();
                // elements some committed document no longer contained although an earlier committed document (of
                // any replica) did: removed on purpose somewhere - whether they are shown is decided by the clauses
                // above (an edit may outrank the deletion of the object while the array follows the removal)
                let mut dropped: BTreeSet<String> = BTreeSet::new();
                {
                    let mut seen: BTreeSet<String> = BTreeSet::new();
                    let mut pending: BTreeMap<usize, usize> = BTreeMap::new();
                    for o in hist {
                        match o {
                            Op::Upd(r, d) => {
                                pending.insert(*r, *d);
                            }
                            Op::Unstage(r) | Op::Reload(r) | Op::Reopen(r) => {
                                pending.remove(r);
                            }
                            Op::Commit(r, _) => {
                                if let Some(d) = pending.remove(r) {
                                    let mut ids = BTreeSet::new();
                                    collect_ids(&Value::Object(sc.menu.doc(d)), &mut ids);
                                    for id in seen.difference(&ids) {
                                        dropped.insert(id.clone());
                                    }
                                    seen.extend(ids);
                                }
                            }
                            _ => {}
                        }
                    }
                }
                for q in 0..n {
                    // the last document replica q submitted AND committed
                    let mut last: Option<usize> = None;
                    let mut pending: Option<usize> = None;
                    for o in hist {
                        match o {
                            Op::Upd(r, d) if *r == q => pending = Some(*d),
                            Op::Unstage(r) | Op::Reload(r) | Op::Reopen(r) if *r == q => pending = None,
                            Op::Commit(r, _) if *r == q => {
                                if let Some(d) = pending.take() {
                                    last = Some(d);
                                }
                            }
                            _ => {}
                        }
                    }
                    if let Some(d) = last {
                        // (elements of the TOP-LEVEL flattened arrays, remembered with their key: the clause applies
                        // while the merged document still has an array under that key)
                        for (k, val) in sc.menu.doc(d).iter() {
                            if k.ends_with('\u{266D}') && val.is_array() {
                                let mut ids = BTreeSet::new();
                                collect_ids(val, &mut ids);
                                for id in ids {
                                    submitted.insert(id.clone());
                                    keys_of.entry(id).or_default().insert(k.clone());
                                }
                            }
                        }
                    }
                }
                for q in 0..n {
                    w.focus();
                    let m = &w.reps[q].m;
                    let rd = read_doc(m);
                    let Some(doc) = rd.get("ok") else { continue };
                    let mut shown = BTreeSet::new();
                    collect_ids(doc, &mut shown);
                    cx.count("presence_after_complete_exchange");
                    for id in submitted.difference(&dropped) {
                        let alive = m.get_winner(id).map(|w| !w.contains("-d_")).unwrap_or(false);
                        let array_still_there = keys_of.get(id).map(|ks| ks.iter().any(|k| doc.get(k).is_some_and(|v| v.is_array()))).unwrap_or(false);
                        if alive && array_still_there && !shown.contains(id) {
                            cx.violation("C06", "C06:live-element-of-a-committed-version-missing-after-complete-exchange", sc, hist, json!({"replica": q, "element": id, "read": doc}));
                            return;
                        }
                    }
                }
            }
        }

    }
}

pub fn scenarios(thorough: bool) -> Vec<Scenario> {
    let mut v = vec![];
    v.push(pair_scenario("pair-arrays", if thorough { &[1, 2, 3, 4, 5, 6, 11] } else { &[1, 2, 3, 5, 6] }, if thorough { 6 } else { 5 }, &[]));
    v.push(pair_conflict_scenario("pair-conflict", 2, 3, if thorough { &[1, 5, 6, 11, 4] } else { &[1, 6, 11] }, if thorough { 5 } else { 4 },
        &[Op::Resolve(1, 0, 0), Op::Resolve(1, 0, 1)]));
    v.push(pair_conflict_scenario("pair-conflict-move", 6, 5, if thorough { &[1, 3, 11] } else { &[1, 3] }, if thorough { 5 } else { 4 }, &[]));
    v.push(trio_scenario("trio", if thorough { 8 } else { 6 }));
    v.push(mutual_move_scenario("pair-mutual-move", if thorough { 4 } else { 3 }, &[]));
    v.push(two_patch_scenario("pair-two-patches", if thorough { 4 } else { 3 }, &[]));
    // cold readers: a replica that receives several versions at once / is reopened
    v.push(pair_conflict_scenario("pair-conflict-cold", 5, 11, if thorough { &[1, 2, 3] } else { &[2, 3] }, if thorough { 5 } else { 4 }, &[Op::Reopen(0), Op::Reopen(1)]));
    v.push(emptied_scenario("pair-array-emptied-in-one-step-vs-insert", 1, if thorough { 4 } else { 3 }, &[]));
    v.push(emptied_scenario("pair-array-emptied-in-two-steps-vs-insert", 2, if thorough { 4 } else { 3 }, &[]));
    // depth 2 in both tiers: every pair of operations from every prepared state
    v.extend(cross_scenarios_depth(2));
    v.extend(combo_scenarios(thorough));
    v
}

pub fn run(thorough: bool) {
    let mut rep = Report::new("C06", if thorough { "thorough" } else { "quick" }, "model_checking");
    run_h(&mut rep, RunCfg {
        scenarios: scenarios(thorough),
        probes: vec![Arc::new(MergeProbe)],
        pools: vec![1],
        time_budget_s: if thorough { 1800 } else { 30 },
        max_states: if thorough { 300_000 } else { 30_000 },
        stop_on_violation: true,
    });
    merge_sweep(&mut rep, thorough);
    rep.set("rule", json!("(P) merge_arrays on ALL ordered pairs of duplicate-free sequences over k ids up to length L, and all triples (winner, leaf, leaf) folded like the reader folds leaves: result duplicate-free, equal to the union, base/winner relative order kept, merged version's order kept when the versions agree on their common elements. (H) in EVERY state of 2/3-replica histories of concurrent array edits (insert front/middle/back, remove, swap, move between arrays, edit-vs-delete of an element): per array referenced by the winning root, with every live leaf version rebuilt through the accessor: each read element belongs to some version and is not deleted, winner order kept, agreeing versions keep their order; per document: no id twice, every live element of some version present."));
    finalize(&mut rep);
    rep.finish();
}
