//! C04 — reading returns exactly the document last submitted.
use super::common::*;
use crate::explore::*;
use crate::menu::*;
use crate::report::Report;
use crate::world::*;
use serde_json::{json, Map, Value};
use std::collections::BTreeMap;
use std::sync::Arc;

const FLAT: &str = "\u{266D}";

pub const GENERATED: &str = "\u{0}generated-identifier";

/// equality of documents in which an expected GENERATED identifier matches any string
pub fn same_doc(expected: &Value, got: &Value) -> bool {
    match (expected, got) {
        (Value::String(e), Value::String(_)) if e == GENERATED => true,
        (Value::Object(a), Value::Object(b)) => a.len() == b.len() && a.iter().all(|(k, v)| b.get(k).is_some_and(|w| same_doc(v, w))),
        (Value::Array(a), Value::Array(b)) => a.len() == b.len() && a.iter().zip(b.iter()).all(|(v, w)| same_doc(v, w)),
        _ => expected == got,
    }
}

/// independent expectation: the submitted document with `_id` added to each tracked object
pub fn expect_tracked(o: &Map<String, Value>, path: &[String]) -> Value {
    let uuid = match o.get("_id").and_then(|v| v.as_str()) {
        Some(s) => s.to_string(),
        None if path.is_empty() => "\u{221A}".to_string(),
        // the statement does not prescribe the value of generated identifiers: any string is accepted
        // (GENERATED is a wildcard in `same_doc`); the path digest is only used to extend the path
        None => GENERATED.to_string(),
    };
    let mut fpath = path.to_vec();
    fpath.push(uuid.clone());
    let mut out = Map::new();
    out.insert("_id".to_string(), json!(uuid));
    for (k, v) in o {
        if k == "_id" {
            continue;
        }
        if k.ends_with(FLAT) {
            let mut p = fpath.clone();
            p.push(k.clone());
            out.insert(k.clone(), expect_flat(v, &p));
        } else {
            out.insert(k.clone(), v.clone());
        }
    }
    Value::Object(out)
}

fn expect_flat(v: &Value, path: &[String]) -> Value {
    match v {
        Value::Array(a) => Value::Array(a.iter().map(|e| expect_flat(e, path)).collect()),
        Value::Object(o) => expect_tracked(o, path),
        _ => v.clone(),
    }
}

/// tracked objects of a document in read format: uuid -> list of shallow contents (one per occurrence)
fn tracked(v: &Value, flat_pos: bool, out: &mut BTreeMap<String, Vec<Value>>) {
    match v {
        Value::Object(o) if flat_pos => {
            let explicit = o.get("_id").and_then(|x| x.as_str()).unwrap_or("?").to_string();
            // objects without an explicit identifier in the submitted document are keyed by a fixed name
            let id = if explicit == GENERATED || (explicit.len() == 64 && explicit.bytes().all(|b| b.is_ascii_hexdigit())) { "<generated>".to_string() } else { explicit };
            let mut shallow = Map::new();
            for (k, val) in o {
                if k.ends_with(FLAT) {
                    // where a tracked object is attached (which flattened field / array holds it)
                    // may reflect the pending merge: only the objects themselves are compared
                    shallow.insert(k.clone(), json!("<flattened>"));
                    tracked(val, true, out);
                } else {
                    shallow.insert(k.clone(), val.clone());
                }
            }
            if id == "<generated>" {
                shallow.remove("_id");
            }
            out.entry(id).or_default().push(Value::Object(shallow));
        }
        Value::Array(a) if flat_pos => {
            for e in a {
                tracked(e, true, out);
            }
        }
        _ => {}
    }
}

/// known input classes that Melda cannot represent (see known_findings.json)
fn classify(doc: &Value) -> Option<&'static str> {
    fn walk(v: &Value, flat_pos: bool, in_flat_array: bool, found: &mut Option<&'static str>) {
        match v {
            Value::Object(o) => {
                if flat_pos && !in_flat_array {
                    if let Some(id) = o.get("_id").and_then(|x| x.as_str()) {
                        if id.starts_with('!') {
                            *found = Some("bang-id-in-flattened-object-field");
                        }
                    }
                }
                if !flat_pos {
                    return;
                }
                for (k, val) in o {
                    if k.ends_with(FLAT) {
                        walk(val, true, false, found);
                    }
                }
            }
            Value::Array(a) if flat_pos => {
                for e in a {
                    if !e.is_object() && found.is_none() {
                        *found = Some("non-object-element-in-flattened-array");
                    }
                    walk(e, true, true, found);
                }
            }
            _ => {}
        }
    }
    // several objects WITHOUT an identifier below one flattened field (through any nesting of arrays, not through
    // objects): the generated identifier is derived from the path alone, so they all get the same one (known finding)
    fn idless(v: &Value, top: bool, n: &mut usize, found: &mut bool) {
        match v {
            Value::Array(a) => a.iter().for_each(|e| idless(e, false, n, found)),
            Value::Object(o) => {
                if !top && !o.contains_key("_id") {
                    *n += 1;
                    if *n > 1 {
                        *found = true;
                    }
                }
                for (k, val) in o {
                    if k.ends_with(FLAT) {
                        let mut m = 0;
                        idless(val, false, &mut m, found);
                    }
                }
            }
            _ => {}
        }
    }
    let mut dup = false;
    if let Value::Object(o) = doc {
        for (k, val) in o {
            if k.ends_with(FLAT) {
                let mut m = 0;
                idless(val, false, &mut m, &mut dup);
            }
        }
    }
    if dup {
        return Some("several-idless-objects-under-one-flattened-field");
    }
    let mut f = None;
    walk(doc, true, false, &mut f);
    f
}

pub struct ReadBackProbe;

impl Probe for ReadBackProbe {
    fn on_state(&self, sc: &Scenario, hist: &[Op], cx: &mut Cx) {
        let nd = sc.menu.docs.len();
        for r in 0..sc.nrep {
            for d in 0..nd {
                let mut w = sc.build(hist);
                if w.any_dead() {
                    return;
                }
                let doc = sc.menu.docs[d].clone();
                let op = Op::Upd(r, d);
                let o = w.apply(&op);
                let mut h = hist.to_vec();
                h.push(op.clone());
                if !o.is_ok() {
                    if !matches!(o, OpOut::Panic(_) | OpOut::Hang(_)) {
                        cx.violation("C04", "C04:update-failed", sc, &h, json!({"outcome": o.text()}));
                    }
                    continue;
                }
                w.focus();
                let m = &w.reps[r].m;
                let got = read_doc(m);
                let want = expect_tracked(doc.as_object().unwrap(), &[]);
                let array_conflict = m.in_conflict().iter().any(|u| u.starts_with('^'));
                cx.outcome(sha_hex(got.to_string().as_bytes()));
                let class = classify(&doc);
                let sig = |base: &str| match class {
                    Some(c) => format!("C04:{}:{}", base, c),
                    None => format!("C04:{}", base),
                };
                // the diff against the current winners is complete: every tracked object with an explicit identifier
                // that the submitted document does not contain now has a deletion as its winner (the deletion is
                // recorded on top of the winner, so it outranks every other leaf)
                if class.is_none() {
                    let mut ids = vec![];
                    fn explicit_ids(v: &Value, out: &mut Vec<String>) {
                        match v {
                            Value::Object(o) => {
                                if let Some(i) = o.get("_id").and_then(|x| x.as_str()) {
                                    out.push(i.to_string());
                                }
                                for (k, val) in o {
                                    if k.ends_with(FLAT) {
                                        explicit_ids(val, out);
                                    }
                                }
                            }
                            Value::Array(a) => a.iter().for_each(|e| explicit_ids(e, out)),
                            _ => {}
                        }
                    }
                    explicit_ids(&doc, &mut ids);
                    for uuid in m.get_all_objects() {
                        let generated = uuid.len() == 64 && uuid.bytes().all(|b| b.is_ascii_hexdigit());
                        if uuid.starts_with('^') || uuid == "\u{221A}" || generated || ids.contains(&uuid) {
                            continue;
                        }
                        cx.count("absent_objects_deleted");
                        let wnr = m.get_winner(&uuid).unwrap_or_default();
                        if !wnr.contains("-d_") {
                            cx.violation("C04", "C04:object-absent-from-the-submitted-document-is-not-deleted", sc, &h, json!({"replica": r, "uuid": uuid, "winner": wnr, "input": doc}));
                            break;
                        }
                    }
                }
                if !array_conflict {
                    cx.count("exact_readback");
                    if !got.get("ok").is_some_and(|g| same_doc(&want, g)) {
                        cx.violation("C04", &sig("read-differs-from-submitted-document"), sc, &h,
                            json!({"replica": r, "input": doc, "expected": want, "read": got}));
                        continue;
                    }
                } else {
                    cx.count("weak_readback_array_in_conflict");
                    let Some(g) = got.get("ok") else {
                        if got.get("panic").is_none() {
                            cx.violation("C04", &sig("read-failed"), sc, &h, json!({"replica": r, "input": doc, "read": got}));
                        }
                        continue;
                    };
                    let (mut a, mut b) = (BTreeMap::new(), BTreeMap::new());
                    tracked(g, true, &mut a);
                    tracked(&want, true, &mut b);
                    if a != b {
                        cx.violation("C04", &sig("objects-differ-while-array-in-conflict"), sc, &h,
                            json!({"replica": r, "input": doc, "expected_objects": b, "read_objects": a, "read": g}));
                        continue;
                    }
                }
                // submitting the same document again changes nothing
                let k1 = replica_state(&w.reps[r], &sc.key_opts);
                let s1 = stage_export(&w.reps[r].m);
                let o2 = w.apply(&op);
                w.focus();
                let k2 = replica_state(&w.reps[r], &sc.key_opts);
                let s2 = stage_export(&w.reps[r].m);
                cx.count("idempotent_update");
                if !o2.is_ok() || k1 != k2 || s1 != s2 {
                    cx.violation("C04", &sig("second-identical-update-changed-state"), sc, &h,
                        json!({"replica": r, "input": doc, "outcome": o2.text(), "differs": diff_keys(&k1, &k2), "stage_before": s1, "stage_after": s2}));
                }
                let got2 = read_doc(&w.reps[r].m);
                if got2 != got {
                    cx.violation("C04", &sig("second-identical-update-changed-read"), sc, &h, json!({"replica": r, "input": doc, "first": got, "second": got2}));
                }
            }
            // committing when nothing changed writes nothing and reports no commit
            let mut w = sc.build(hist);
            if !has_staging(&w.reps[r].m) {
                let before = w.reps[r].store.snapshot();
                let k1 = replica_state(&w.reps[r], &sc.key_opts);
                let o = w.apply(&Op::Commit(r, 1));
                cx.count("noop_commit");
                let after = w.reps[r].store.snapshot();
                let k2 = replica_state(&w.reps[r], &sc.key_opts);
                if o != OpOut::Ok("none".into()) || before != after || k1 != k2 {
                    cx.violation("C04", "C04:commit-with-nothing-staged-had-an-effect", sc, hist,
                        json!({"replica": r, "outcome": o.text(), "storage_changed": before != after, "state_differs": diff_keys(&k1, &k2)}));
                }
                // ... and submitting what is already there records nothing: every live object re-submitted through
                // the object API with its current content, and re-created with the content of its creation revision
                w.focus();
                let m = &w.reps[r].m;
                for uuid in m.get_all_objects() {
                    if uuid.starts_with('^') {
                        continue;
                    }
                    let tree = m.verif_dump_tree(&uuid).unwrap_or_default();
                    let Some((creation, _, _)) = tree.iter().find(|(_, p, _)| p.is_none()) else { continue };
                    let Ok(v0) = m.get_value(&uuid, Some(creation)) else { continue };
                    if v0.contains_key("_deleted") || v0.contains_key("_resolved") {
                        continue;
                    }
                    // (values orphaned by remove_object may already sit in the data stage: compare with the export before)
                    let exported_before = m.stage().ok().flatten();
                    let r1 = crate::guard::call("create_object(same)", || m.create_object(&uuid, v0.clone()).map_err(|e| e.to_string()));
                    let mut what = vec![format!("create_object({}, <content of {}>) -> {:?}", uuid, creation, r1)];
                    if let Ok(cur) = m.get_value(&uuid, None) {
                        if !cur.contains_key("_deleted") {
                            let r2 = crate::guard::call("update_object(same)", || m.update_object(&uuid, cur.clone()).map_err(|e| e.to_string()));
                            what.push(format!("update_object({}, <current content>) -> {:?}", uuid, r2));
                        }
                    }
                    cx.count("resubmissions_of_existing_content");
                    let staged = has_staging(m);
                    let exported = m.stage().ok().flatten();
                    if staged || exported != exported_before {
                        cx.violation("C04", "C04:resubmitting-existing-content-staged-something", sc, hist,
                            json!({"replica": r, "calls": what, "has_staging": staged, "stage_export": exported}));
                        break;
                    }
                }
            }
        }
    }
}

fn with_kinds(mut sc: Scenario) -> Scenario {
    // the probe submits every document of the menu; the exploration alphabet keeps its own subset
    let mut docs = sc.menu.docs.clone();
    docs.extend(kind_docs());
    docs.extend(vec![
        json!({"l♭":[{"_id":"x","v":1,"n♭":[{"_id":"z","v":1}]},{"_id":"y","v":1}]}),
        json!({"m♭":[{"_id":"y","v":1},{"_id":"x","v":1}], "l♭":{"_id":"z","v":1}}),
        json!({"l♭":[{"_id":"y","v":{"_id":"x"}}], "q":{"_id":"notracked","l♭":[1]}}),
        json!({"l♭":[]}),
        json!({}),
    ]);
    sc.menu = menu(docs);
    sc
}

pub fn scenarios(thorough: bool) -> Vec<Scenario> {
    let mut v = vec![];
    v.push(with_kinds(pair_scenario("pair-arrays", if thorough { &[1, 2, 3, 6, 9] } else { &[2, 3, 6] }, if thorough { 5 } else { 4 },
        &[Op::Resolve(0, 0, 0), Op::Resolve(1, 0, 1)])));
    v.push(with_kinds(pair_conflict_scenario("pair-conflict", 2, 3, if thorough { &[1, 8, 4] } else { &[1, 8] }, if thorough { 4 } else { 3 },
        &[Op::Resolve(1, 0, 0), Op::Resolve(1, 0, 1), Op::Resolve(1, 1, 0)])));
    v.push(with_kinds(pair_conflict_scenario("pair-conflict-edit-vs-delete", 4, 3, &[8, 9], if thorough { 4 } else { 3 },
        &[Op::Resolve(1, 0, 0), Op::Resolve(1, 0, 1), Op::Resolve(1, 1, 0)])));
    v.push(single_scenario("single-kinds", {
        let mut d = kind_docs();
        d.extend(vec![json!({"l♭":[{"_id":"x","v":1,"n♭":[{"_id":"z","v":1}]},{"_id":"y","v":1}]}), json!({"l♭":[]}), json!({})]);
        d
    }, if thorough { 3 } else { 2 }, &[Op::Unstage(0), Op::Snapshot(0)]));
    // one branch has a two-digit revision index, the other a one-digit one
    v.push(long_chain_scenario("pair-long-chain", if thorough { 3 } else { 2 }, &[]));
    // the same edit script twice in a row (delete the head twice, with the elements moved to m♭)
    v.push(single_scenario("single-move", vec![
        json!({"l♭":[z(), x()], "m♭":[]}),
        json!({"l♭":[x()], "m♭":[z()]}),
        json!({"l♭":[], "m♭":[z(), x()]}),
        json!({"l♭":[z(), x(), y()], "m♭":[]}),
        json!({"l♭":[y()], "m♭":[x(), z()]}),
    ], if thorough { 4 } else { 3 }, &[Op::Unstage(0)]));
    v.extend(cross_scenarios(thorough));
    v.extend(combo_scenarios(thorough));
    v
}

/// documents with an explicit root identifier are read back through read(Some(root)); every sequence
/// of up to 3/4 such documents (two roots, shared element ids) on one replica, committing in between or not
pub fn custom_root_sweep(rep: &mut Report, thorough: bool) {
    let docs = vec![
        json!({"_id":"r1","l♭":[x(), y()]}),
        json!({"_id":"r1","l♭":[y()],"s":"!t"}),
        json!({"_id":"r2","l♭":[x2()],"o♭":{"_id":"z","v":1}}),
        json!({"_id":"r2","m♭":[z(), x()]}),
        json!({"l♭":[x()]}),
    ];
    let n = docs.len();
    let len = if thorough { 4 } else { 3 };
    let mut seqs: Vec<Vec<usize>> = vec![vec![]];
    let mut all = vec![];
    for _ in 0..len {
        let mut next = vec![];
        for s in &seqs {
            for d in 0..n {
                let mut t = s.clone();
                t.push(d);
                next.push(t);
            }
        }
        all.extend(next.iter().cloned());
        seqs = next;
    }
    let mut evals = 0u64;
    let mut reported = false;
    for s in &all {
        for commit_each in [false, true] {
            let a: std::sync::Arc<std::sync::RwLock<Box<dyn melda::adapter::Adapter>>> = crate::adapter::Store::new().adapter();
            crate::guard::set_trace("C04 custom roots");
            let m = melda::melda::Melda::new(a).unwrap();
            let mut trace = vec![];
            for &d in s {
                evals += 1;
                let doc = docs[d].as_object().unwrap().clone();
                let root = doc.get("_id").and_then(|v| v.as_str()).map(|s| s.to_string());
                trace.push(format!("update(D{})", d));
                let r = crate::guard::call("update", || m.update(doc.clone()).map_err(|e| e.to_string()));
                let want = expect_tracked(&doc, &[]);
                let got = match &r {
                    Ok(Ok(id)) => {
                        let rid = id.clone();
                        match crate::guard::call("read", || m.read(Some(&rid)).map_err(|e| e.to_string())) {
                            Ok(Ok(v)) => json!({"ok": serde_json::Value::Object(v)}),
                            Ok(Err(e)) => json!({"err": e}),
                            Err(p) => json!({"panic": p}),
                        }
                    }
                    Ok(Err(e)) => json!({"update_err": e}),
                    Err(p) => json!({"update_panic": p}),
                };
                let id_ok = matches!(&r, Ok(Ok(id)) if Some(id.clone()) == root || (root.is_none() && id == "\u{221A}"));
                if (!got.get("ok").is_some_and(|g| same_doc(&want, g)) || !id_ok) && !reported {
                    reported = true;
                    rep.violations.push(Violation { property: "C04".into(), signature: "C04:custom-root-read-differs".into(), scenario: "custom-roots".into(), history: vec![],
                        detail: json!({"input": {"documents": docs, "sequence": trace, "commit_after_each": commit_each}, "expected": want, "read": got, "returned_root": format!("{:?}", r)}) });
                }
                if commit_each {
                    let _ = crate::guard::call("commit", || m.commit(None).map(|_| ()).map_err(|e| e.to_string()));
                    trace.push("commit".into());
                }
            }
        }
    }
    rep.add_u64("evaluations", evals);
    rep.set("custom_root_sweep", json!({"documents": n, "max_sequence_length": len, "sequences": all.len() * 2, "update_read_checks": evals}));
}

/// All values of a small grammar up to a nesting bound, placed in a flattened field and in a plain field of a
/// fresh replica: update, read (== expectation), update again (nothing staged anew), commit, reopen, read.
/// Grammar: atoms (strings incl. the prefix characters and the empty string, numbers, null, bool), [], {},
/// arrays of one / two values, plain objects with one key, objects with an explicit identifier (with a scalar, and
/// with a nested flattened field), objects without an identifier.
pub fn shape_sweep(rep: &mut Report, thorough: bool) {
    use rayon::prelude::*;
    let atoms: Vec<Value> = vec![json!("s"), json!("!b"), json!("^c"), json!(""), json!(1), json!(2.5), json!(null), json!(true)];
    let mut level0: Vec<Value> = atoms.clone();
    level0.push(json!([]));
    level0.push(json!({}));
    let ids = ["x", "y", "z", "w"];
    fn used_ids(v: &Value, out: &mut Vec<String>) {
        match v {
            Value::Object(o) => {
                if let Some(i) = o.get("_id").and_then(|x| x.as_str()) {
                    out.push(i.to_string());
                }
                for val in o.values() {
                    used_ids(val, out);
                }
            }
            Value::Array(a) => a.iter().for_each(|e| used_ids(e, out)),
            _ => {}
        }
    }
    // explicit identifiers must be unique within a document (assumed by the statement)
    let unique = |v: &Value| -> bool {
        let mut u = vec![];
        used_ids(v, &mut u);
        let n = u.len();
        u.sort();
        u.dedup();
        u.len() == n
    };
    let wrap = |inner: &[Value], pair_with: &[Value], id: &str| -> Vec<Value> {
        let mut out = vec![];
        for v in inner {
            out.push(json!([v]));
            out.push(json!({"k": v}));
            out.push(json!({"_id": id, "n♭": v}));
            out.push(json!({"_id": id, "p": v}));
            out.push(json!({"q": v}));
            out.push(json!({"q♭": v}));
        }
        for a in pair_with {
            for b in pair_with {
                out.push(json!([a, b]));
            }
        }
        out
    };
    let mut level1 = level0.clone();
    level1.extend(wrap(&level0, &level0, ids[0]));
    // a reduced set for pairs at the next level: one representative per construction
    let reduced: Vec<Value> = vec![json!("s"), json!("!b"), json!(1), json!(null), json!([]), json!({}), json!(["s"]), json!([1, "^c"]), json!({"k": "s"}), json!({"q": 1}), json!({"q♭": ["s"]}),
        json!({"_id": ids[2], "p": 1}), json!({"_id": ids[3], "n♭": ["s", {"_id": "v", "p": "!b"}]})];
    let mut level2 = level1.clone();
    level2.extend(wrap(&level1, &reduced, ids[1]));
    let values: Vec<Value> = if thorough {
        let mut l3 = level2.clone();
        l3.extend(wrap(&level2, &[], "u"));
        l3
    } else {
        level2
    };
    let mut docs: Vec<Value> = vec![];
    for v in &values {
        if !unique(v) {
            continue;
        }
        docs.push(json!({"f♭": v}));
        docs.push(json!({"a": v, "f♭": [{"_id": "e", "p": 0}]}));
    }
    // the key "#" (constants::HASH_FIELD) in tracked and untracked positions, with short-hex, long and non-string values
    // the empty string is an identifier like any other
    docs.push(json!({"f♭": [{"_id": "", "v": 1}, {"_id": "c", "v": 3}]}));
    docs.push(json!({"f♭": [{"_id": "", "v": 1}, {"v": 2}, {"_id": "c", "v": 3}]}));
    docs.push(json!({"f♭": {"_id": "", "v": 1}}));
    // id-less objects under the same flattened key below DIFFERENT owners (the generated identifier depends on the path)
    docs.push(json!({"f♭": [{"_id": "a", "pos♭": {"k": 1}}, {"_id": "b", "pos♭": {"k": 2}}]}));
    docs.push(json!({"f♭": [{"_id": "a", "tags♭": [{"k": 1}]}, {"_id": "b", "tags♭": [{"k": 2}]}]}));
    docs.push(json!({"f♭": {"_id": "a", "pos♭": {"k": 1}}, "g♭": {"_id": "b", "pos♭": {"k": 1}}}));
    docs.push(json!({"f♭": {"pos♭": {"k": 1}}, "g♭": {"pos♭": {"k": 2}}}));
    for h in [json!("41"), json!("zz"), json!("0123456789abcdef0123456789abcdef0123456789abcdef0123456789abcdef"), json!(7), json!(null),
        json!("000000042"), json!("+41"), json!("0041"), json!("ffffffff"), json!("100000000"), json!("0000000000000041"), json!("d"), json!("e"), json!("r")] {
        docs.push(json!({"f♭": [{"_id": "x", "#": h}]}));
        docs.push(json!({"f♭": [{"_id": "x", "#": h, "p": 1}]}));
        docs.push(json!({"f♭": {"#": h, "p": 1}}));
        docs.push(json!({"#": h, "f♭": [{"_id": "x", "p": 1}]}));
        docs.push(json!({"a": {"#": h, "p": 1}, "f♭": [{"_id": "x", "p": {"#": h}}]}));
    }
    // the flattening marker anywhere but at the END of a key is an ordinary character: the value stays opaque
    for k in ["n♭d", "♭n", "n♭ "] {
        let mut o = serde_json::Map::new();
        o.insert(k.to_string(), json!([{"v": 1}, {"v": 2}]));
        docs.push(Value::Object(o.clone()));
        o.insert(k.to_string(), json!({"v": 1}));
        docs.push(Value::Object(o.clone()));
        o.insert(k.to_string(), json!([{"_id": "x", "v": 9}]));
        o.insert("f♭".into(), json!([{"_id": "x", "v": 1}]));
        docs.push(Value::Object(o.clone()));
        let mut inner = serde_json::Map::new();
        inner.insert("_id".into(), json!("x"));
        inner.insert(k.to_string(), json!([{"v": 1}, {"v": 2}, {"_id": "x", "v": 3}]));
        docs.push(json!({"f♭": [Value::Object(inner)]}));
    }
    // the other names the storage format uses internally, as user keys and values of tracked objects and of the root
    for k in ["_deleted", "_resolved", "A", "a", "p", "c", "o", "i", "k", "e", "d", "r", "√", "^", "!", "♭", "@"] {
        for val in [json!(true), json!(["y"]), json!([["i", 0, ["z"]]]), json!("d"), json!({"A": ["q"]})] {
            let mut o = serde_json::Map::new();
            o.insert("_id".into(), json!("x"));
            o.insert(k.to_string(), val.clone());
            docs.push(json!({"f♭": [Value::Object(o.clone())]}));
            o.insert("p".into(), json!(1));
            docs.push(json!({"f♭": Value::Object(o.clone())}));
            let mut root = serde_json::Map::new();
            root.insert(k.to_string(), val.clone());
            root.insert("f♭".into(), json!([{"_id": "x", "p": 1}]));
            docs.push(Value::Object(root));
        }
    }
    let evals = std::sync::atomic::AtomicU64::new(0);
    let classes: std::sync::Mutex<BTreeMap<String, u64>> = std::sync::Mutex::new(BTreeMap::new());
    let bad: std::sync::Mutex<Vec<(usize, String, Value)>> = std::sync::Mutex::new(vec![]);
    docs.par_iter().enumerate().for_each(|(i, d)| {
        let doc = d.as_object().unwrap().clone();
        let want = expect_tracked(&doc, &[]);
        let st = crate::adapter::Store::new();
        crate::guard::set_trace("C04 shape sweep");
        let m = melda::melda::Melda::new(st.adapter()).unwrap();
        let fail = |what: &str, detail: Value| {
            let mut b = bad.lock().unwrap();
            b.push((i, what.to_string(), json!({"input": {"document": d}, "expected": want, "observed": detail})));
        };
        evals.fetch_add(1, std::sync::atomic::Ordering::Relaxed);
        match crate::guard::call("update", || m.update(doc.clone()).map_err(|e| e.to_string())) {
            Ok(Ok(_)) => {}
            Ok(Err(e)) => {
                // a refusal with an error is not "reading something else": counted, not a violation of C04
                *classes.lock().unwrap().entry(format!("update-refused:{}", e.chars().take(40).collect::<String>())).or_insert(0) += 1;
                return;
            }
            Err(p) => return fail("update-panicked", json!({"panic": p})),
        }
        let r1 = read_doc(&m);
        if !r1.get("ok").is_some_and(|g| same_doc(&want, g)) {
            return fail("read-differs-from-submitted-document", r1);
        }
        let stage1 = crate::guard::call("stage", || m.stage().ok().flatten()).ok().flatten();
        if let Ok(Ok(_)) = crate::guard::call("update", || m.update(doc.clone()).map_err(|e| e.to_string())) {
            let stage2 = crate::guard::call("stage", || m.stage().ok().flatten()).ok().flatten();
            if stage1 != stage2 {
                return fail("resubmitting-the-same-document-staged-something", json!({"stage_before": stage1, "stage_after": stage2}));
            }
        }
        match crate::guard::call("commit", || m.commit(None).map(|x| x.is_some()).map_err(|e| e.to_string())) {
            Ok(Ok(_)) => {}
            Ok(Err(e)) => return fail("commit-failed", json!({"error": e})),
            Err(p) => return fail("commit-panicked", json!({"panic": p})),
        }
        let r2 = read_doc(&m);
        if !r2.get("ok").is_some_and(|g| same_doc(&want, g)) {
            return fail("read-after-commit-differs", r2);
        }
        match fresh_on(&st.snapshot(), "C04 shape sweep reopen") {
            Ok((m2, _)) => {
                let r3 = read_doc(&m2);
                if r3 != r2 {
                    return fail("reopened-read-differs", json!({"live": r2, "reopened": r3}));
                }
            }
            Err(e) => return fail("reopen-failed", json!({"error": e})),
        }
        *classes.lock().unwrap().entry("round-trip-exact".into()).or_insert(0) += 1;
    });
    let mut b = bad.into_inner().unwrap();
    b.sort_by_key(|x| x.0);
    let mut seen = std::collections::BTreeSet::new();
    let failing = b.len();
    for (_, what, detail) in b {
        let class = classify(&detail["input"]["document"]).map(|c| format!(":{}", c)).unwrap_or_default();
        let sig = format!("C04:shape-sweep:{}{}", what, class);
        if seen.insert(sig.clone()) {
            rep.violations.push(Violation { property: "C04".into(), signature: sig, scenario: "shape-sweep".into(), history: vec![], detail });
        }
    }
    rep.add_u64("evaluations", evals.load(std::sync::atomic::Ordering::Relaxed));
    rep.set("shape_sweep", json!({"values_of_the_grammar": values.len(), "documents": docs.len(), "failing_documents": failing, "outcomes": classes.into_inner().unwrap()}));
}

/// Every ordered PAIR of documents built from the depth-1 values of the same grammar (a flattened field changing
/// from any shape to any other shape), with and without a commit between them: the second read must be exactly
/// the second document, live and reopened. Documents of known-finding classes are left to the single sweep.
pub fn shape_pair_sweep(rep: &mut Report, thorough: bool) {
    use rayon::prelude::*;
    let atoms: Vec<Value> = vec![json!("s"), json!("!b"), json!("^c"), json!(""), json!(1), json!(null), json!(true)];
    let mut level0: Vec<Value> = atoms.clone();
    level0.push(json!([]));
    level0.push(json!({}));
    let mut vals: Vec<Value> = level0.clone();
    for v in &level0 {
        vals.push(json!([v]));
        vals.push(json!({"k": v}));
        vals.push(json!({"_id": "x", "n♭": v}));
        vals.push(json!({"_id": "x", "p": v}));
        vals.push(json!({"_id": "y", "p": v}));
        vals.push(json!({"q": v}));
        vals.push(json!({"q♭": v}));
    }
    let more = vec![
        json!([{"_id": "x", "p": 1}, {"_id": "y", "p": 1}]), json!([{"_id": "y", "p": 1}, {"_id": "x", "p": 1}]), json!([{"_id": "x", "p": 2}]),
        json!([[{"_id": "x", "p": 1}], [{"_id": "y", "p": 1}]]), json!(["s", {"_id": "x", "p": 1}, 1]), json!([{"q": 1}, {"_id": "x", "p": 1}]),
        json!({"_id": "x", "n♭": [{"_id": "y", "p": 1}]}), json!({"_id": "y", "n♭": [{"_id": "x", "p": 1}]}), json!([{"_id": "x", "n♭": ["s", "!b"]}]),
    ];
    vals.extend(more);
    if thorough {
        // thorough: one more level of wrapping around a few composite values
        for v in [json!(["s"]), json!([1, "^c"]), json!({"k": "s"}), json!({"q": 1}), json!({"_id": "z", "p": 1}), json!([{"_id": "z", "p": 1}])] {
            vals.push(json!([v]));
            vals.push(json!({"k": v}));
            vals.push(json!({"_id": "x", "n♭": v}));
            vals.push(json!({"q♭": v}));
            vals.push(json!([v, "s"]));
        }
    }
    let docs: Vec<Value> = vals.iter().map(|v| json!({"f♭": v})).filter(|d| classify(d).is_none()).collect();
    let n = docs.len();
    let evals = std::sync::atomic::AtomicU64::new(0);
    let bad: std::sync::Mutex<Vec<(usize, String, Value)>> = std::sync::Mutex::new(vec![]);
    let idx: Vec<(usize, usize, bool)> = (0..n).flat_map(|a| (0..n).flat_map(move |b| [(a, b, false), (a, b, true)])).collect();
    idx.par_iter().for_each(|&(a, b, commit_between)| {
        let (d1, d2) = (docs[a].as_object().unwrap().clone(), docs[b].as_object().unwrap().clone());
        let want = expect_tracked(&d2, &[]);
        let st = crate::adapter::Store::new();
        crate::guard::set_trace("C04 shape pair sweep");
        let m = melda::melda::Melda::new(st.adapter()).unwrap();
        evals.fetch_add(1, std::sync::atomic::Ordering::Relaxed);
        let fail = |what: &str, detail: Value| {
            bad.lock().unwrap().push((a * n + b, what.to_string(), json!({"input": {"first_document": docs[a], "commit_between": commit_between, "second_document": docs[b]}, "expected": want, "observed": detail})));
        };
        for (i, d) in [&d1, &d2].into_iter().enumerate() {
            match crate::guard::call("update", || m.update(d.clone()).map_err(|e| e.to_string())) {
                Ok(Ok(_)) => {}
                Ok(Err(e)) => return fail("update-refused", json!({"error": e, "which": i})),
                Err(p) => return fail("update-panicked", json!({"panic": p, "which": i})),
            }
            if i == 0 && commit_between {
                match crate::guard::call("commit", || m.commit(None).map(|_| ()).map_err(|e| e.to_string())) {
                    Ok(Ok(())) => {}
                    Ok(Err(e)) => return fail("commit-failed", json!({"error": e})),
                    Err(p) => return fail("commit-panicked", json!({"panic": p})),
                }
            }
        }
        let r1 = read_doc(&m);
        if !r1.get("ok").is_some_and(|g| same_doc(&want, g)) {
            return fail("second-read-differs-from-second-document", r1);
        }
        match crate::guard::call("commit", || m.commit(None).map(|_| ()).map_err(|e| e.to_string())) {
            Ok(Ok(())) => {}
            Ok(Err(e)) => return fail("commit-failed", json!({"error": e})),
            Err(p) => return fail("commit-panicked", json!({"panic": p})),
        }
        let r2 = read_doc(&m);
        if r2 != r1 {
            return fail("commit-changed-the-read", json!({"before": r1, "after": r2}));
        }
        match fresh_on(&st.snapshot(), "C04 shape pair sweep reopen") {
            Ok((m2, _)) => {
                let r3 = read_doc(&m2);
                if r3 != r2 {
                    fail("reopened-read-differs", json!({"live": r2, "reopened": r3}));
                }
            }
            Err(e) => fail("reopen-failed", json!({"error": e})),
        }
    });
    let mut b = bad.into_inner().unwrap();
    b.sort_by_key(|x| x.0);
    let failing = b.len();
    let mut seen = std::collections::BTreeSet::new();
    for (_, what, detail) in b {
        let sig = format!("C04:shape-pair-sweep:{}", what);
        if seen.insert(sig.clone()) {
            rep.violations.push(Violation { property: "C04".into(), signature: sig, scenario: "shape-pair-sweep".into(), history: vec![], detail });
        }
    }
    rep.add_u64("evaluations", evals.load(std::sync::atomic::Ordering::Relaxed));
    rep.set("shape_pair_sweep", json!({"documents": n, "ordered_pairs_x_commit_between": idx.len(), "failing": failing}));
}

pub fn run(thorough: bool) {
    let mut rep = Report::new("C04", if thorough { "thorough" } else { "quick" }, "model_checking");
    run_h(&mut rep, RunCfg {
        scenarios: scenarios(thorough),
        probes: vec![Arc::new(ReadBackProbe)],
        pools: vec![1],
        time_budget_s: if thorough { 2400 } else { 45 },
        max_states: if thorough { 100_000 } else { 3_000 },
        stop_on_violation: false,
    });
    custom_root_sweep(&mut rep, thorough);
    shape_sweep(&mut rep, thorough);
    shape_pair_sweep(&mut rep, thorough);
    rep.set("rule", json!("in EVERY distinct state (committed or staged, merged or not, object / array conflicts or not) and for EVERY document D of the menu (array edits, objects moving between arrays, flattened keys appearing / disappearing / changing kind, nested flattened arrays, id-less objects, '!'/'^' prefixed strings and ids, scalars, empty objects): update(D) then read(). If no array descriptor is in conflict the result must equal an independently computed expectation (D with _id added to each tracked object) exactly; otherwise the multiset of tracked objects and their contents must match. Then update(D) again: canonical replica state, stage export and read unchanged. In every state without staging: commit returns None, storage and state unchanged. distinct_nontrivial = distinct read results"));
    rep.assume("well-formed documents: explicit _id values are unique strings not starting with '^'; the root has no _id (objects without _id are in scope: identifiers are generated - see the known finding about several of them under one flattened field)");
    finalize(&mut rep);
    rep.finish();
}
