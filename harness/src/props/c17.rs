//! C17 — all storage backends implement the same write-once key/value contract (engine A).
use super::common::*;
use crate::explore::Violation;
use crate::guard::{call, set_trace};
use crate::menu::*;
use crate::report::Report;
use crate::world::*;
use melda::adapter::Adapter;
use melda::brotliadapter::BrotliAdapter;
use melda::filesystemadapter::FilesystemAdapter;
use melda::flate2adapter::Flate2Adapter;
use melda::melda::Melda;
use melda::memoryadapter::MemoryAdapter;
use melda::sqliteadapter::SqliteAdapter;
use rayon::prelude::*;
use serde_json::{json, Value};
use std::collections::{BTreeMap, BTreeSet, HashSet, VecDeque};
use std::sync::atomic::{AtomicU64, Ordering};
use std::sync::{Arc, Mutex, RwLock};

type Dyn = Arc<RwLock<Box<dyn Adapter>>>;

#[derive(Clone, Copy, Debug, PartialEq)]
pub enum Base {
    Memory,
    Dir,
    SqliteFile,
    SqliteMem,
}
#[derive(Clone, Copy, Debug, PartialEq)]
pub enum Wrap {
    Plain,
    Flate,
    Brotli,
}

static COUNTER: AtomicU64 = AtomicU64::new(0);

pub fn scratch() -> std::path::PathBuf {
    let d = std::env::temp_dir().join(format!("mv-c17-{}", std::process::id()));
    std::fs::create_dir_all(&d).unwrap();
    d
}

pub fn fresh_path() -> String {
    let n = COUNTER.fetch_add(1, Ordering::SeqCst);
    scratch().join(format!("b{}", n)).to_str().unwrap().to_string()
}

/// opens (or re-opens) a backend at `path`; Err(msg) if construction panics or fails
pub fn open_backend(base: Base, wrap: Wrap, path: &str) -> Result<Dyn, String> {
    let p = path.to_string();
    let inner: Result<Box<dyn Adapter>, String> = call("open_backend", move || -> Result<Box<dyn Adapter>, String> {
        Ok(match base {
            Base::Memory => Box::new(MemoryAdapter::new()),
            Base::Dir => Box::new(FilesystemAdapter::new(&p).map_err(|e| e.to_string())?),
            Base::SqliteFile => Box::new(SqliteAdapter::new(&p)),
            Base::SqliteMem => Box::new(SqliteAdapter::new_in_memory()),
        })
    })
    .map_err(|p| format!("panic:{}", p))
    .and_then(|r| r);
    let inner = inner?;
    let d: Dyn = Arc::new(RwLock::new(inner));
    Ok(match wrap {
        Wrap::Plain => d,
        Wrap::Flate => Arc::new(RwLock::new(Box::new(Flate2Adapter::new(d)) as Box<dyn Adapter>)),
        Wrap::Brotli => Arc::new(RwLock::new(Box::new(BrotliAdapter::new(d)) as Box<dyn Adapter>)),
    })
}

/// how a backend is constructed: by its constructor, through `adapter::get_adapter(url)`, or alternating
/// between the two on every (re)open (what one route wrote the other must read)
#[derive(Clone, Copy, Debug, PartialEq)]
pub enum Route {
    Direct,
    Url,
    Alternate,
    /// opened through a URL that names the directory / database RELATIVE to the working directory (which the check
    /// sets to its scratch directory), re-opened through the constructor with the absolute path
    UrlRelative,
    /// opened through a URL with an explicit `localhost` authority ("file+flate://localhost/abs/dir"), re-opened
    /// through the constructor with the absolute path: the authority is not part of the location
    UrlHost,
}

pub fn backend_url(base: Base, wrap: Wrap, path: &str) -> String {
    let suffix = match wrap {
        Wrap::Plain => "",
        Wrap::Flate => "+flate",
        Wrap::Brotli => "+brotli",
    };
    match base {
        Base::Memory => format!("memory{}://", suffix),
        Base::Dir => format!("file{}://{}", suffix, path),
        Base::SqliteFile => format!("sqlite{}://{}", suffix, path),
        Base::SqliteMem => format!("sqlite{}::memory:", suffix),
    }
}

/// opens (or re-opens) a backend through the URL factory
pub fn open_backend_url(base: Base, wrap: Wrap, path: &str) -> Result<Dyn, String> {
    let url = backend_url(base, wrap, path);
    let inner = call("get_adapter", move || melda::adapter::get_adapter(&url).map_err(|e| e.to_string()))
        .map_err(|p| format!("panic:{}", p))
        .and_then(|r| r)?;
    Ok(Arc::new(RwLock::new(inner)))
}

fn open_routed(route: Route, nth_open: usize, base: Base, wrap: Wrap, path: &str) -> Result<Dyn, String> {
    if route == Route::UrlRelative && nth_open % 2 == 0 {
        // "file:<name>" / "sqlite:<name>" (opaque form, relative to the working directory = scratch())
        let name = std::path::Path::new(path).file_name().and_then(|n| n.to_str()).unwrap_or("x").to_string();
        let suffix = match wrap {
            Wrap::Plain => "",
            Wrap::Flate => "+flate",
            Wrap::Brotli => "+brotli",
        };
        let url = format!("sqlite{}:{}", suffix, name);
        let inner = call("get_adapter", move || melda::adapter::get_adapter(&url).map_err(|e| e.to_string()))
            .map_err(|p| format!("panic:{}", p))
            .and_then(|r| r)?;
        return Ok(Arc::new(RwLock::new(inner)));
    }
    if route == Route::UrlHost && nth_open % 2 == 0 {
        let suffix = match wrap {
            Wrap::Plain => "",
            Wrap::Flate => "+flate",
            Wrap::Brotli => "+brotli",
        };
        let scheme = if base == Base::Dir { "file" } else { "sqlite" };
        let url = format!("{}{}://localhost{}", scheme, suffix, path);
        let inner = call("get_adapter", move || melda::adapter::get_adapter(&url).map_err(|e| e.to_string()))
            .map_err(|p| format!("panic:{}", p))
            .and_then(|r| r)?;
        return Ok(Arc::new(RwLock::new(inner)));
    }
    let url = match route {
        Route::Direct | Route::UrlRelative | Route::UrlHost => false,
        Route::Url => true,
        Route::Alternate => nth_open % 2 == 0,
    };
    if url {
        open_backend_url(base, wrap, path)
    } else {
        open_backend(base, wrap, path)
    }
}

fn persistent(b: Base) -> bool {
    matches!(b, Base::Dir | Base::SqliteFile)
}

#[derive(Clone, Debug, PartialEq, Eq, Hash)]
enum AOp {
    Write(usize, usize),
    Reopen,
}

fn keys_universe(thorough: bool) -> Vec<&'static str> {
    // "FFEE.PACK": same letters in another case (a suffix match must be exact);
    // "ffee.pack.old": the suffix inside the name, not at its end (must not be listed under ".pack")
    // (keys as short as the directory backend's shard prefix are exercised by short_key_pass: one more key would
    // multiply the abstract state space by the number of values + 1)
    if thorough {
        vec!["1-aaaa.delta", "1-aabb.delta", "ffee.pack", "ff00.pack", "FFEE.PACK", "ffee.pack.old"]
    } else {
        vec!["1-aaaa.delta", "ffee.pack", "FFEE.PACK", "ffee.pack.old"]
    }
}

fn values_universe(thorough: bool) -> Vec<Vec<u8>> {
    let all: Vec<u8> = (0..=255u8).collect();
    let comp: Vec<u8> = b"abc".iter().cycle().take(300).cloned().collect();
    // 96 KiB of poorly compressible bytes (sha256 chain): slices far into a large compressed stream
    let mut big: Vec<u8> = vec![];
    let mut h = crate::world::sha_hex(b"seed");
    while big.len() < 96 * 1024 {
        big.extend_from_slice(h.as_bytes());
        h = crate::world::sha_hex(h.as_bytes());
    }
    // (the large value is not part of the BFS alphabet: it is exercised by large_value_pass)
    let _ = big;
    if thorough {
        vec![vec![], vec![0x7b], all, comp]
    } else {
        vec![vec![], vec![0x7b], all]
    }
}

fn slices(len: usize) -> Vec<(usize, usize)> {
    let mut v = vec![];
    if len == 0 {
        return v;
    }
    if len <= 16 {
        for o in 0..len {
            for l in 1..=(len - o) {
                v.push((o, l));
            }
        }
    } else {
        let mut cand = vec![(0, 1), (0, len), (1, len - 1), (len - 1, 1), (len / 2, 1), (len / 2, len - len / 2), (7, 13), (0, 16), (len - 16, 16), (1, 1), (255.min(len - 1), 1)];
        // a grid of positions for large values (block / buffer boundaries of the compressors)
        // long slices: around typical internal buffer sizes (32 KiB, 64 KiB), not ending at the end
        for l in [32767usize, 32768, 32769, 65535, 65536, 65537, 70000] {
            for o in [0usize, 1, 4095] {
                if o + l < len {
                    cand.push((o, l));
                }
            }
        }
        let mut o = 4096;
        while o + 64 <= len {
            cand.push((o - 1, 64));
            cand.push((o, 1));
            o += 4096;
        }
        for (o, l) in cand {
            if l >= 1 && o + l <= len {
                v.push((o, l));
            }
        }
    }
    v
}

/// compares the whole observable state of the backend with the reference map
fn observe(ad: &Dyn, reference: &BTreeMap<String, Vec<u8>>, keys: &[&str]) -> Result<u64, Value> {
    let a = ad.read().unwrap();
    let mut n = 0u64;
    let mut all_keys: Vec<String> = keys.iter().map(|k| k.to_string()).collect();
    all_keys.push("never-written.delta".to_string());
    for k in &all_keys {
        n += 1;
        let got = call("read_object", || a.read_object(k, 0, 0)).map_err(|p| json!({"error": "read_object panicked", "key": k, "panic": p}))?;
        match (reference.get(k), got) {
            (Some(w), Ok(g)) => {
                if &g != w {
                    return Err(json!({"error": "whole read differs from the first write", "key": k, "got_len": g.len(), "want_len": w.len()}));
                }
                for (o, l) in slices(w.len()) {
                    n += 1;
                    let s = call("read_object", || a.read_object(k, o, l)).map_err(|p| json!({"error": "ranged read panicked", "key": k, "offset": o, "length": l, "panic": p}))?;
                    match s {
                        Ok(s) if s == w[o..o + l] => {}
                        Ok(s) => return Err(json!({"error": "ranged read differs", "key": k, "offset": o, "length": l, "got": s, "want": w[o..o + l].to_vec()})),
                        Err(e) => return Err(json!({"error": "ranged read failed", "key": k, "offset": o, "length": l, "message": e.to_string()})),
                    }
                }
            }
            (Some(_), Err(e)) => return Err(json!({"error": "stored key cannot be read", "key": k, "message": e.to_string()})),
            (None, Ok(g)) => return Err(json!({"error": "never-written key is readable", "key": k, "got_len": g.len()})),
            (None, Err(_)) => {}
        }
    }
    for ext in ["", ".delta", ".pack"] {
        n += 1;
        let got = call("list_objects", || a.list_objects(ext)).map_err(|p| json!({"error": "list_objects panicked", "ext": ext, "panic": p}))?;
        let mut got = got.map_err(|e| json!({"error": "list_objects failed", "ext": ext, "message": e.to_string()}))?;
        got.sort();
        let mut want: Vec<String> = reference.keys().filter(|k| k.ends_with(ext)).map(|k| k.strip_suffix(ext).unwrap().to_string()).collect();
        want.sort();
        if got != want {
            return Err(json!({"error": "listing differs", "ext": ext, "got": got, "want": want}));
        }
    }
    Ok(n)
}

/// runs a sequence of adapter operations on a fresh backend, comparing after every step
fn run_seq(base: Base, wrap: Wrap, seq: &[AOp], keys: &[&str], vals: &[Vec<u8>]) -> Result<u64, Value> {
    run_seq_routed(Route::Direct, base, wrap, seq, keys, vals)
}

fn run_seq_routed(route: Route, base: Base, wrap: Wrap, seq: &[AOp], keys: &[&str], vals: &[Vec<u8>]) -> Result<u64, Value> {
    let path = fresh_path();
    let mut opens = 0usize;
    let mut ad = open_routed(route, opens, base, wrap, &path).map_err(|e| json!({"error": "backend cannot be created", "message": e}))?;
    let mut reference: BTreeMap<String, Vec<u8>> = BTreeMap::new();
    let mut n = observe(&ad, &reference, keys)?;
    for (i, op) in seq.iter().enumerate() {
        match op {
            AOp::Write(k, v) => {
                let (key, val) = (keys[*k], &vals[*v]);
                let r = call("write_object", || ad.read().unwrap().write_object(key, val)).map_err(|p| json!({"error": "write_object panicked", "step": i, "panic": p}))?;
                r.map_err(|e| json!({"error": "write_object failed", "step": i, "message": e.to_string()}))?;
                reference.entry(key.to_string()).or_insert_with(|| val.clone());
            }
            AOp::Reopen => {
                drop(ad);
                opens += 1;
                ad = open_routed(route, opens, base, wrap, &path).map_err(|e| json!({"error": "persistent backend cannot be reopened", "step": i, "message": e}))?;
            }
        }
        n += observe(&ad, &reference, keys).map_err(|mut d| {
            d["after_step"] = json!(i);
            d
        })?;
    }
    drop(ad);
    let _ = std::fs::remove_dir_all(&path);
    let _ = std::fs::remove_file(&path);
    Ok(n)
}

fn seq_text(seq: &[AOp], keys: &[&str], vals: &[Vec<u8>]) -> Vec<String> {
    seq.iter().map(|o| match o {
        AOp::Write(k, v) => format!("write({}, {} bytes)", keys[*k], vals[*v].len()),
        AOp::Reopen => "reopen".to_string(),
    }).collect()
}

/// breadth-first over operation sequences, deduplicated on (reference content, reopened-last flag)
fn adapter_bfs(rep: &mut Report, thorough: bool) {
    let keys = keys_universe(thorough);
    let vals = values_universe(thorough);
    let depth = if thorough { 4 } else { 3 };
    let mut backends = vec![];
    for b in [Base::Memory, Base::Dir, Base::SqliteFile, Base::SqliteMem] {
        for w in [Wrap::Plain, Wrap::Flate, Wrap::Brotli] {
            backends.push((b, w, Route::Direct));
            // quick tier: the URL routes of the SQLite bases and the alternating route are run on the plain wrapper
            // only (the thorough tier runs the full product)
            let sqlite = matches!(b, Base::SqliteFile | Base::SqliteMem);
            if thorough || !sqlite || w == Wrap::Plain {
                backends.push((b, w, Route::Url));
            }
            if persistent(b) && (thorough || w == Wrap::Plain) {
                backends.push((b, w, Route::Alternate));
            }
            // (only SQLite: "file" is a special URL scheme whose path is always absolute - "file:name" means "/name")
            if b == Base::SqliteFile && (thorough || w == Wrap::Plain) {
                backends.push((b, w, Route::UrlRelative));
            }
            // quick tier: the directory backend under Deflate (a compound scheme); thorough: the directory backend under every
            // wrapper and the SQLite file plain
            if persistent(b) && ((thorough && (b == Base::Dir || w == Wrap::Plain)) || (b == Base::Dir && w == Wrap::Flate)) {
                backends.push((b, w, Route::UrlHost));
            }
        }
    }
    let mut per_backend = vec![];
    for (b, w, route) in backends {
        let mut alphabet: Vec<AOp> = vec![];
        for k in 0..keys.len() {
            for v in 0..vals.len() {
                alphabet.push(AOp::Write(k, v));
            }
        }
        if persistent(b) {
            alphabet.push(AOp::Reopen);
        }
        // abstract state = (which value index each key holds, whether the last op was a reopen)
        let mut seen: HashSet<(Vec<Option<usize>>, bool)> = HashSet::new();
        let mut frontier: VecDeque<(Vec<AOp>, Vec<Option<usize>>, bool)> = VecDeque::new();
        seen.insert((vec![None; keys.len()], false));
        frontier.push_back((vec![], vec![None; keys.len()], false));
        let mut seqs: Vec<Vec<AOp>> = vec![];
        let mut transitions = 0u64;
        while let Some((seq, st, _)) = frontier.pop_front() {
            if seq.len() >= depth {
                continue;
            }
            for op in &alphabet {
                let mut st2 = st.clone();
                let mut re = false;
                match op {
                    AOp::Write(k, v) => {
                        if st2[*k].is_none() {
                            st2[*k] = Some(*v);
                        }
                    }
                    AOp::Reopen => re = true,
                }
                let mut s2 = seq.clone();
                s2.push(op.clone());
                transitions += 1;
                seqs.push(s2.clone());
                if seen.insert((st2.clone(), re)) {
                    frontier.push_back((s2, st2, re));
                }
            }
        }
        let checks = AtomicU64::new(0);
        let bad: Mutex<Vec<Value>> = Mutex::new(vec![]);
        seqs.par_iter().for_each(|s| match run_seq_routed(route, b, w, s, &keys, &vals) {
            Ok(n) => {
                checks.fetch_add(n, Ordering::Relaxed);
            }
            Err(mut d) => {
                d["input"] = json!({"backend": format!("{:?}+{:?}", b, w), "constructed": format!("{:?}", route), "url": backend_url(b, w, "<path>"), "operations": seq_text(s, &keys, &vals)});
                let mut bd = bad.lock().unwrap();
                if bd.len() < 50 {
                    bd.push(d);
                }
            }
        });
        let mut bd = bad.into_inner().unwrap();
        // shortest failing sequence first
        bd.sort_by_key(|d| d["input"]["operations"].as_array().map(|a| a.len()).unwrap_or(0));
        let mut sigs = BTreeSet::new();
        for d in &bd {
            let sig = match route {
                Route::Direct => format!("C17:{:?}:{}", b, d["error"].as_str().unwrap_or("?")),
                _ => format!("C17:{:?}+{:?}:via-{:?}:{}", b, w, route, d["error"].as_str().unwrap_or("?")),
            };
            if sigs.insert(sig.clone()) {
                rep.violations.push(Violation { property: "C17".into(), signature: sig, scenario: "adapter-bfs".into(), history: vec![], detail: d.clone() });
            }
        }
        rep.add_u64("evaluations", checks.load(Ordering::Relaxed));
        rep.add_u64("states", seen.len() as u64);
        rep.add_u64("transitions", transitions);
        rep.add_u64("traces_validated_against_impl", seqs.len() as u64);
        per_backend.push(json!({"backend": format!("{:?}+{:?}", b, w), "constructed": format!("{:?}", route), "abstract_states": seen.len(), "transitions": transitions, "observations_compared": checks.load(Ordering::Relaxed), "failing_sequences": bd.len()}));
    }
    rep.set("adapter_bfs", json!({"keys": keys, "value_lengths": vals.iter().map(|v| v.len()).collect::<Vec<_>>(), "depth": depth, "backends": per_backend}));
    rep.push_sample(json!({"adapter_sequence": ["write(1-aaaa.delta, 256 bytes)", "reopen", "write(1-aaaa.delta, 1 bytes)", "observe: whole reads, every slice, listings \"\"/.delta/.pack"]}));
}

fn big_value() -> Vec<u8> {
    let mut big: Vec<u8> = vec![];
    let mut h = crate::world::sha_hex(b"seed");
    while big.len() < 96 * 1024 {
        big.extend_from_slice(h.as_bytes());
        h = crate::world::sha_hex(h.as_bytes());
    }
    big
}

/// one large, poorly compressible value on every backend: whole read, boundary slices and a grid of
/// slices across the whole value (buffer boundaries of the compressing wrappers), before and after reopen
fn large_value_pass(rep: &mut Report) {
    let keys = ["1-aaaa.delta", "ffee.pack"];
    let vals = vec![big_value(), vec![0x7b]];
    let mut runs = 0u64;
    for b in [Base::Memory, Base::Dir, Base::SqliteFile, Base::SqliteMem] {
        for w in [Wrap::Plain, Wrap::Flate, Wrap::Brotli] {
            let mut seqs = vec![vec![AOp::Write(1, 0)], vec![AOp::Write(0, 0), AOp::Write(0, 1), AOp::Write(1, 1)]];
            if persistent(b) {
                seqs.push(vec![AOp::Write(1, 0), AOp::Reopen, AOp::Write(1, 1)]);
            }
            for s in seqs {
                runs += 1;
                match run_seq(b, w, &s, &keys, &vals) {
                    Ok(n) => rep.add_u64("evaluations", n),
                    Err(mut d) => {
                        d["input"] = json!({"backend": format!("{:?}+{:?}", b, w), "operations": seq_text(&s, &keys, &vals)});
                        rep.violations.push(Violation { property: "C17".into(), signature: format!("C17:{:?}+{:?}:large-value:{}", b, w, d["error"].as_str().unwrap_or("?")), scenario: "large-value".into(), history: vec![], detail: d });
                    }
                }
            }
        }
    }
    // one value beyond 1 MiB through each compressing wrapper (encoders that emit nothing before their first
    // meta-block closes behave differently above that size): written once, read back whole and in three slices
    // (poorly compressible throughout: a hash chain, not a repetition of the smaller value)
    let mut huge: Vec<u8> = vec![];
    let mut h = crate::world::sha_hex(b"very large value");
    while huge.len() < 1_500_000 {
        huge.extend_from_slice(h.as_bytes());
        h = crate::world::sha_hex(h.as_bytes());
    }
    for w in [Wrap::Flate, Wrap::Brotli] {
        runs += 1;
        let path = fresh_path();
        let r: Result<(), Value> = (|| {
            let ad = open_backend(Base::Memory, w, &path).map_err(|e| json!({"error": "backend cannot be created", "message": e}))?;
            call("write_object", || ad.read().unwrap().write_object("big.pack", &huge)).map_err(|p| json!({"error": "write_object panicked", "panic": p}))?.map_err(|e| json!({"error": "write_object failed", "message": e.to_string()}))?;
            for (off, len) in [(0usize, 0usize), (0, 10), (huge.len() / 2, 1000), (huge.len() - 7, 7)] {
                let got = call("read_object", || ad.read().unwrap().read_object("big.pack", off, len)).map_err(|p| json!({"error": "read_object panicked", "panic": p}))?.map_err(|e| json!({"error": "very large value cannot be read back", "offset": off, "length": len, "message": e.to_string()}))?;
                let want: &[u8] = if off == 0 && len == 0 { &huge } else { &huge[off..off + len] };
                if got != want {
                    return Err(json!({"error": "very large value reads back differently", "offset": off, "length": len, "got_bytes": got.len(), "expected_bytes": want.len()}));
                }
            }
            Ok(())
        })();
        rep.add_u64("evaluations", 4);
        if let Err(mut d) = r {
            d["input"] = json!({"backend": format!("Memory+{:?}", w), "value_bytes": huge.len()});
            rep.violations.push(Violation { property: "C17".into(), signature: format!("C17:Memory+{:?}:very-large-value:{}", w, d["error"].as_str().unwrap_or("?")), scenario: "large-value".into(), history: vec![], detail: d });
        }
    }
    rep.set("large_value_pass", json!({"value_bytes": vals[0].len(), "very_large_value_bytes": huge.len(), "sequences": runs}));
}

/// keys as short as the directory backend's shard prefix ("ab"), one character longer, and a two-character name
/// before a suffix: every order of writing two of them, with a reopen in between on persistent backends
fn short_key_pass(rep: &mut Report) {
    let keys = ["ab", "abc", "ab.pack", "cd.delta", "a", "a\u{e9}.pack"];
    let vals = vec![vec![0x7b], b"xy".to_vec()];
    let mut runs = 0u64;
    for b in [Base::Memory, Base::Dir, Base::SqliteFile, Base::SqliteMem] {
        for w in [Wrap::Plain, Wrap::Flate, Wrap::Brotli] {
            let mut seqs = vec![];
            for k1 in 0..keys.len() {
                for k2 in 0..keys.len() {
                    if k1 == k2 {
                        continue;
                    }
                    if persistent(b) {
                        seqs.push(vec![AOp::Write(k1, 0), AOp::Reopen, AOp::Write(k2, 1)]);
                    } else {
                        seqs.push(vec![AOp::Write(k1, 0), AOp::Write(k2, 1)]);
                    }
                }
            }
            for s in seqs {
                runs += 1;
                match run_seq(b, w, &s, &keys, &vals) {
                    Ok(n) => rep.add_u64("evaluations", n),
                    Err(mut d) => {
                        d["input"] = json!({"backend": format!("{:?}+{:?}", b, w), "operations": seq_text(&s, &keys, &vals)});
                        rep.violations.push(Violation { property: "C17".into(), signature: format!("C17:{:?}+{:?}:short-key:{}", b, w, d["error"].as_str().unwrap_or("?")), scenario: "short-key".into(), history: vec![], detail: d });
                    }
                }
            }
        }
    }
    rep.set("short_key_pass", json!({"keys": keys, "sequences": runs}));
}

/// the same replica history over every backend must give the same views
fn replica_histories(rep: &mut Report, thorough: bool) {
    let m = menu(arr_docs());
    let hists: Vec<Vec<Op>> = vec![
        vec![Op::Upd(0, 0), Op::Commit(0, 1), Op::Upd(0, 2), Op::Commit(0, 0), Op::Reopen(0), Op::Upd(0, 3), Op::Commit(0, 2), Op::Travel(0, 0), Op::Reload(0)],
        vec![Op::Upd(0, 0), Op::Commit(0, 0), Op::Sync(1, 0), Op::Upd(0, 2), Op::Commit(0, 0), Op::Upd(1, 3), Op::Commit(1, 0), Op::Sync(1, 0), Op::Sync(0, 1), Op::Reopen(0), Op::Reopen(1)],
        vec![Op::Upd(0, 6), Op::Upd(0, 0), Op::Commit(0, 0), Op::Sync(1, 0), Op::Upd(1, 1), Op::Commit(1, 0), Op::Upd(0, 2), Op::Commit(0, 0), Op::Sync(0, 1), Op::Resolve(0, 0, 0), Op::Commit(0, 1), Op::Reopen(0), Op::Sync(1, 0), Op::Reopen(1)],
    ];
    let mut backends = vec![];
    for b in [Base::Memory, Base::Dir, Base::SqliteFile, Base::SqliteMem] {
        for w in [Wrap::Plain, Wrap::Flate, Wrap::Brotli] {
            backends.push((b, w));
        }
    }
    let mut runs = 0u64;
    for (hi, h) in hists.iter().enumerate() {
        if !thorough && hi == 2 {
            // quick: two histories
        }
        // baseline on the instrumented memory adapter of the harness
        let base_world = World::build(2, m.clone(), h);
        let baseline: Vec<Value> = (0..2).map(|r| base_world.view(r)).collect();
        for (b, w, via_url) in backends.iter().flat_map(|(b, w)| [(b, w, false), (b, w, true)]) {
            runs += 1;
            let r = run_history_on(*b, *w, &m, h, via_url);
            match r {
                Ok(views) => {
                    if views != baseline {
                        rep.violations.push(Violation { property: "C17".into(), signature: format!("C17:{:?}:replica-history-differs{}", b, if via_url { ":via-url" } else { "" }), scenario: "replica-histories".into(), history: h.clone(),
                            detail: json!({"input": {"backend": format!("{:?}+{:?}", b, w), "via_url": via_url}, "differs_r0": diff_keys(&views[0], &baseline[0]), "differs_r1": diff_keys(&views[1], &baseline[1]), "views": views, "baseline": baseline, "menu": {"docs": m.docs, "replicas": 2}}) });
                    }
                }
                Err(e) => {
                    let non_persistent_reopen = !persistent(*b) && h.iter().any(|o| matches!(o, Op::Reopen(_)));
                    if non_persistent_reopen {
                        continue;
                    }
                    rep.violations.push(Violation { property: "C17".into(), signature: format!("C17:{:?}:replica-history-failed{}", b, if via_url { ":via-url" } else { "" }), scenario: "replica-histories".into(), history: h.clone(),
                        detail: json!({"input": {"backend": format!("{:?}+{:?}", b, w), "via_url": via_url}, "error": e, "menu": {"docs": m.docs, "replicas": 2}}) });
                }
            }
        }
    }
    rep.add_u64("evaluations", runs);
    rep.set("replica_histories", json!({"histories": hists.iter().map(|h| hist_str(h)).collect::<Vec<_>>(), "backend_runs": runs}));
}

/// executes a history with replicas living on the given backend kind
fn run_history_on(b: Base, w: Wrap, m: &Arc<Menu>, h: &[Op], via_url: bool) -> Result<Vec<Value>, String> {
    set_trace("C17 history");
    let paths: Vec<String> = (0..2).map(|_| fresh_path()).collect();
    let mut reps: Vec<Melda> = vec![];
    let mut heads: Vec<Vec<BTreeSet<String>>> = vec![vec![], vec![]];
    for p in &paths {
        if via_url {
            // the replica is created by Melda::new_from_url; a later reopen uses the constructors (and vice versa)
            let url = backend_url(b, w, p);
            reps.push(call("Melda::new_from_url", || Melda::new_from_url(&url)).map_err(|p| format!("panic:{}", p))?.map_err(|e| e.to_string())?);
            continue;
        }
        let ad = open_backend(b, w, p)?;
        reps.push(call("Melda::new", || Melda::new(ad)).map_err(|p| format!("panic:{}", p))?.map_err(|e| e.to_string())?);
    }
    let mut reopens = 0usize;
    for op in h {
        let r = op.replica();
        let res: Result<Result<(), String>, String> = match op {
            Op::Upd(_, d) => call("upd", || reps[r].update(m.doc(*d)).map(|_| ()).map_err(|e| e.to_string())),
            Op::Commit(_, i) => call("commit", || reps[r].commit(m.info(*i)).map(|_| ()).map_err(|e| e.to_string())),
            Op::Sync(_, s) => {
                let x = call("meld", || reps[r].meld(&reps[*s]).map(|_| ()).map_err(|e| e.to_string()));
                match x {
                    Ok(Ok(())) => {
                        let mr = &mut reps[r];
                        call("refresh", || mr.refresh().map_err(|e| e.to_string()))
                    }
                    o => o,
                }
            }
            Op::Reload(_) => call("reload", || reps[r].reload().map_err(|e| e.to_string())),
            Op::Travel(_, k) => {
                let ids = to_delta_ids(&heads[r][*k]);
                call("travel", || reps[r].reload_until(&ids).map_err(|e| e.to_string()))
            }
            Op::Resolve(_, j, k) => call("resolve", || {
                let c: Vec<String> = reps[r].in_conflict().into_iter().collect();
                let leafs = reps[r].verif_leafs(&c[*j]).unwrap();
                reps[r].resolve_as(&c[*j], &leafs[*k]).map(|_| ()).map_err(|e| e.to_string())
            }),
            Op::Reopen(_) => {
                if !persistent(b) {
                    return Err("reopen on a non-persistent backend".into());
                }
                // drop the old replica (and its connection) first
                let placeholder = call("Melda::new", || Melda::new(crate::adapter::Store::new().adapter())).unwrap().unwrap();
                let old = std::mem::replace(&mut reps[r], placeholder);
                drop(old);
                reopens += 1;
                let ad = if via_url && reopens % 2 == 0 { open_backend_url(b, w, &paths[r])? } else { open_backend(b, w, &paths[r])? };
                match call("Melda::new", || Melda::new(ad)) {
                    Ok(Ok(mm)) => {
                        reps[r] = mm;
                        Ok(Ok(()))
                    }
                    Ok(Err(e)) => Ok(Err(e.to_string())),
                    Err(p) => Err(p),
                }
            }
            _ => Ok(Ok(())),
        };
        match res {
            Ok(Ok(())) => {}
            Ok(Err(e)) => return Err(format!("{} failed: {}", op.short(), e)),
            Err(p) => return Err(format!("{} panicked: {}", op.short(), p)),
        }
        if !reps[r].has_staging() {
            let a = anchors_of(&reps[r]);
            if !a.is_empty() && !heads[r].contains(&a) {
                heads[r].push(a);
            }
        }
    }
    let views = reps.iter().map(view).collect();
    drop(reps);
    for p in &paths {
        let _ = std::fs::remove_dir_all(p);
        let _ = std::fs::remove_file(p);
    }
    Ok(views)
}

pub fn run(thorough: bool) {
    // relative URLs are resolved against the working directory
    let _ = std::env::set_current_dir(scratch());
    let mut rep = Report::new("C17", if thorough { "thorough" } else { "quick" }, "model_checking");
    adapter_bfs(&mut rep, thorough);
    large_value_pass(&mut rep);
    short_key_pass(&mut rep);
    replica_histories(&mut rep, thorough);
    let _ = std::fs::remove_dir_all(scratch());
    rep.set("distinct_nontrivial", rep.coverage.get("states").cloned().unwrap_or(json!(0)));
    rep.set("exhaustive", json!(true));
    rep.set("rule", json!("engine A: breadth-first over sequences of write(key, value) and reopen (persistent backends) up to the stated depth, deduplicated on the abstract state (first value written per key, reopened-last flag), on EACH of memory, directory, SQLite file, SQLite in-memory x {plain, Deflate, Brotli} x construction route {constructor, adapter::get_adapter(url), alternating between the two on every reopen}; after EVERY step the entire observable state is compared with a first-write-wins map: whole read of every key (and of a never-written key), EVERY non-empty in-range slice of values up to 16 bytes and a boundary set beyond, list for \"\", .delta, .pack as sorted multisets with the suffix removed. Then fixed replica histories (reopen, time travel, two-replica sync, resolution) are run over every backend (replicas created by Melda::new on a constructed adapter and by Melda::new_from_url, reopened through the other route) and the views compared with the in-memory baseline."));
    rep.assume("keys are ASCII, at least 2 characters, and do not end in the wrappers' own suffixes (as every key Melda generates); ranged reads are non-empty and in range; the Solid backend (network) is excluded");
    rep.finish();
}
