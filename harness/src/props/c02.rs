//! C02 — blocks take effect only when causally complete; incremental refresh == full reload.
use super::common::*;
use crate::explore::*;
use crate::guard::set_trace;
use crate::menu::*;
use crate::refmodel;
use crate::report::Report;
use crate::world::*;
use serde_json::{json, Value};
use std::collections::{BTreeSet, HashSet};
use std::sync::{Arc, Mutex};

pub struct CausalProbe {
    pub max_missing: usize,
    /// above max_missing and up to this size the subset lattice is walked instead of all permutations
    pub max_lattice: usize,
    pub seen: Mutex<HashSet<String>>,
}

/// oracles evaluated on replica r of world w after a delivery
fn check_target(
    sc: &Scenario,
    hist: &[Op],
    w: &World,
    r: usize,
    delivered: &[String],
    cx: &mut Cx,
    last: Option<&Value>,
) {
    let store = w.reps[r].store.snapshot();
    let an = refmodel::analyse(&store);
    // (i) applied == complete
    w.focus();
    let status = crate::guard::call("verif_delta_status", || w.reps[r].m.verif_delta_status()).unwrap_or_default();
    let applied: BTreeSet<String> = status.iter().filter(|(_, s)| **s == "applied").map(|(k, _)| k.clone()).collect();
    cx.count("applied_equals_complete");
    if applied != an.complete {
        cx.violation("C02", "C02:applied-set-differs-from-causally-complete-set", sc, hist,
            json!({"target": r, "delivered": delivered, "applied": applied, "complete_by_reference": an.complete, "statuses": status}));
        return;
    }
    let v = w.view(r);
    cx.outcome(sha_hex(v.to_string().as_bytes()));
    // (ii) incremental refresh == fresh open of the same storage
    let vf = fresh_view(&store, "C02 fresh(store)");
    cx.count("incremental_equals_reload");
    if v != vf {
        cx.violation("C02", "C02:incremental-refresh-differs-from-reload", sc, hist,
            json!({"target": r, "delivered": delivered, "differs": diff_keys(&v,&vf), "view": v, "fresh": vf}));
        return;
    }
    // (iii) == fresh open of the complete sub-store only
    let sub = refmodel::complete_substore(&store);
    let vs = fresh_view(&sub, "C02 fresh(complete substore)");
    cx.count("equals_complete_substore");
    if v != vs {
        cx.violation("C02", "C02:incomplete-block-influences-state", sc, hist,
            json!({"target": r, "delivered": delivered, "differs": diff_keys(&v,&vs), "view": v, "complete_only": vs}));
        return;
    }
    if let Some(exp) = last {
        cx.count("final_equals_source");
        if &v != exp {
            cx.violation("C02", "C02:final-state-differs-from-source", sc, hist,
                json!({"target": r, "delivered": delivered, "differs": diff_keys(&v,exp), "view": v, "expected": exp}));
        }
    }
    set_trace("");
}

impl Probe for CausalProbe {
    /// a live replica that has just refreshed (nothing staged) shows what a full reload of its storage shows
    fn on_transition(&self, sc: &Scenario, hist: &[Op], op: &Op, _pre: &World, out: &OpOut, post: &World, cx: &mut Cx) {
        let r = match op {
            Op::Refresh(r) | Op::Sync(r, _) => *r,
            _ => return,
        };
        if !out.is_ok() || post.any_dead() || has_staging(&post.reps[r].m) {
            return;
        }
        cx.count("refresh_vs_reload");
        let live = post.view(r);
        let mut h = hist.to_vec();
        h.push(op.clone());
        let mut w = sc.build(&h);
        let o = w.apply(&Op::Reload(r));
        if !o.is_ok() {
            return;
        }
        let reloaded = w.view(r);
        if live != reloaded {
            cx.violation("C02", "C02:live-refresh-differs-from-reload", sc, &h, json!({"replica": r, "differs": diff_keys(&live, &reloaded), "after_refresh": live, "after_reload": reloaded}));
        }
    }
    fn on_state(&self, sc: &Scenario, hist: &[Op], cx: &mut Cx) {
        let w = sc.build(hist);
        if w.any_dead() {
            return;
        }
        let n = sc.nrep;
        let staged: Vec<bool> = (0..n).map(|r| has_staging(&w.reps[r].m)).collect();
        let stores: Vec<RawStore> = (0..n).map(|r| w.reps[r].store.snapshot()).collect();
        let keys: Vec<String> = (0..n).map(|r| {
            let rs = replica_state(&w.reps[r], &sc.key_opts);
            sha_hex(rs.to_string().as_bytes())
        }).collect();
        drop(w);
        // targets: live replicas lacking items of another replica's storage, and an empty fresh replica
        for s in 0..n {
            for t in 0..=n {
                if t == s || (t < n && staged[t]) {
                    continue;
                }
                let tstore = if t < n { stores[t].clone() } else { RawStore::new() };
                let missing: Vec<String> = stores[s].keys().filter(|k| !tstore.contains_key(*k)).cloned().collect();
                if missing.is_empty() || missing.len() > self.max_lattice {
                    if !missing.is_empty() { cx.count("skipped_too_many_missing"); }
                    continue;
                }
                if missing.len() > self.max_missing {
                    // subset lattice: every delivered SET is reached, every edge (set, next item) is
                    // executed once from a representative path; the state recorded for a set must be the
                    // same whichever edge reaches it (=> by induction every order gives the same state)
                    let dk = format!("L|{}|{}|{}", if t < n { keys[t].clone() } else { "empty".into() }, store_digest(&stores[s]), t < n);
                    if !self.seen.lock().unwrap().insert(dk) {
                        continue;
                    }
                    cx.count("lattice_problems");
                    let nm = missing.len();
                    let mut rep_path: std::collections::HashMap<u32, Vec<usize>> = std::collections::HashMap::new();
                    let mut rec: std::collections::HashMap<u32, String> = std::collections::HashMap::new();
                    rep_path.insert(0, vec![]);
                    let mut masks: Vec<u32> = (0..(1u32 << nm)).collect();
                    masks.sort_by_key(|m| m.count_ones());
                    for mask in masks {
                        let Some(path) = rep_path.get(&mask).cloned() else { continue };
                        for k in 0..nm {
                            if mask & (1 << k) != 0 {
                                continue;
                            }
                            cx.count("lattice_edges");
                            let mut w = if t < n { sc.build(hist) } else { World::new(1, sc.menu.clone()) };
                            let tr = if t < n { t } else { 0 };
                            let mut delivered = vec![];
                            let mut okk = true;
                            for &pi in path.iter().chain(std::iter::once(&k)) {
                                let key = &missing[pi];
                                w.reps[tr].store.put_raw(key, stores[s][key].clone());
                                delivered.push(key.clone());
                                if !w.apply(&Op::Refresh(tr)).is_ok() {
                                    cx.violation("C02", "C02:refresh-failed", sc, hist, json!({"target": t, "delivered": delivered}));
                                    okk = false;
                                    break;
                                }
                            }
                            if !okk {
                                return;
                            }
                            let nv = cx.violations.len();
                            check_target(sc, hist, &w, tr, &delivered, cx, None);
                            if cx.violations.len() > nv {
                                return;
                            }
                            w.focus();
                            let sig = json!({"view": w.view(tr), "status": w.reps[tr].m.verif_delta_status()}).to_string();
                            let nmask = mask | (1 << k);
                            match rec.get(&nmask) {
                                Some(old) if *old != sig => {
                                    cx.violation("C02", "C02:state-depends-on-delivery-order", sc, hist, json!({"target": t, "delivered_in_this_order": delivered, "other_order": rep_path.get(&nmask).map(|p| p.iter().map(|&i| missing[i].clone()).collect::<Vec<_>>())}));
                                    return;
                                }
                                Some(_) => {}
                                None => {
                                    rec.insert(nmask, sig);
                                    let mut np = path.clone();
                                    np.push(k);
                                    rep_path.insert(nmask, np);
                                }
                            }
                        }
                    }
                    continue;
                }
                let dk = format!("{}|{}|{}", if t < n { keys[t].clone() } else { "empty".into() }, store_digest(&stores[s]), t < n);
                if !self.seen.lock().unwrap().insert(dk) {
                    continue;
                }
                let u = union(&tstore, &stores[s]);
                let expected = fresh_view(&u, "C02 fresh(U)");
                cx.count("delivery_problems");
                cx.sample(json!({"scenario": sc.name, "history": hist_str(hist), "source": s, "target": if t < n { json!(t) } else { json!("empty") }, "missing_items": missing}));
                // an item that first arrives incomplete (partial copy by a sync tool: name and content
                // disagree) and is completed later must end in the same state
                for (bi, bad_key) in missing.iter().enumerate() {
                    cx.count("incomplete_then_completed");
                    let mut w = if t < n { sc.build(hist) } else { World::new(1, sc.menu.clone()) };
                    let tr = if t < n { t } else { 0 };
                    let full = stores[s][bad_key].clone();
                    w.reps[tr].store.put_raw(bad_key, full[..full.len() / 2].to_vec());
                    let _ = w.apply(&Op::Refresh(tr));
                    if w.any_dead() {
                        cx.violation("C02", "C02:refresh-panicked-on-incomplete-item", sc, hist, json!({"target": t, "incomplete": bad_key}));
                        return;
                    }
                    let mut delivered = vec![format!("{} (first half only, then refresh)", bad_key)];
                    let mut okk = true;
                    // then everything (including the completed item) in rotated order
                    for j in 0..missing.len() {
                        let k = &missing[(bi + j) % missing.len()];
                        w.reps[tr].store.put_raw(k, stores[s][k].clone());
                        delivered.push(k.clone());
                        let o = w.apply(&Op::Refresh(tr));
                        if !o.is_ok() {
                            cx.violation("C02", "C02:refresh-failed", sc, hist, json!({"target": t, "delivered": delivered, "outcome": o.text()}));
                            okk = false;
                            break;
                        }
                    }
                    if !okk {
                        return;
                    }
                    let nv = cx.violations.len();
                    check_target(sc, hist, &w, tr, &delivered, cx, Some(&expected));
                    if cx.violations.len() > nv {
                        return;
                    }
                }
                for p in permutations(missing.len()) {
                    cx.count("permutations");
                    // target world: the live replica t of the state, or a fresh empty replica
                    let mut w = if t < n { sc.build(hist) } else { World::new(1, sc.menu.clone()) };
                    let tr = if t < n { t } else { 0 };
                    let mut delivered = vec![];
                    let mut ok = true;
                    for (i, &pi) in p.iter().enumerate() {
                        let k = &missing[pi];
                        w.reps[tr].store.put_raw(k, stores[s][k].clone());
                        delivered.push(k.clone());
                        let o = w.apply(&Op::Refresh(tr));
                        cx.count("deliveries");
                        if !o.is_ok() {
                            cx.violation("C02", "C02:refresh-failed", sc, hist, json!({"target": t, "delivered": delivered, "outcome": o.text()}));
                            ok = false;
                            break;
                        }
                        let nv = cx.violations.len();
                        let last = i + 1 == p.len();
                        check_target(sc, hist, &w, tr, &delivered, cx, if last { Some(&expected) } else { None });
                        if cx.violations.len() > nv {
                            ok = false;
                            break;
                        }
                    }
                    if !ok {
                        return;
                    }
                }
            }
        }
    }
}

pub fn scenarios(thorough: bool) -> Vec<Scenario> {
    let mut v = vec![];
    v.push(pair_scenario("pair-arrays", if thorough { &[1, 2, 3, 6] } else { &[2, 3] }, if thorough { 6 } else { 5 },
        &[Op::Resolve(0, 0, 0), Op::Resolve(1, 0, 1), Op::Unstage(0), Op::Unstage(1)]));
    v.push(pair_conflict_scenario("pair-conflict", 2, 3, if thorough { &[1, 8, 4] } else { &[1] }, if thorough { 5 } else { 3 },
        &[Op::Resolve(1, 0, 0), Op::Resolve(1, 0, 1), Op::Unstage(1)]));
    v.push(trio_scenario("trio", if thorough { 7 } else { 5 }));
    v.push(trio_merge_scenario("trio-merge", if thorough { 3 } else { 2 }, &[]));
    v.push(relay_scenario("trio-relay", if thorough { 6 } else { 5 }, &[]));
    // a commit after time travel that re-uses a value stored only in the pack of the abandoned branch
    // (extra operations: after travelling back, the SAME document as an abandoned commit with other metadata: a
    // block without a pack of its own whose values live in the pack of its abandoned sibling)
    v.push(travel_reuse_scenario("pair-travel-reuse", if thorough { 5 } else { 3 }, &[Op::Upd(0, 1), Op::Commit(0, 1)]));
    // replica 1 lacks the tenth and eleventh commit of replica 0 (block indexes 10 and 11)
    v.push(many_commits_scenario("pair-many-commits", if thorough { 3 } else { 2 }, &[]));
    v.extend(cross_scenarios(thorough));
    // (the delivery-order probe is expensive: only the combinations that are about arrival of items)
    v.extend(combo_scenarios(thorough).into_iter().filter(|s| s.name.contains("held-back") || s.name == "combo-ring" || s.name.contains("travelled")));
    v
}

pub fn run(thorough: bool) {
    let mut rep = Report::new("C02", if thorough { "thorough" } else { "quick" }, "model_checking");
    let max_missing = if thorough { 7 } else { 5 };
    run_h(&mut rep, RunCfg {
        scenarios: scenarios(thorough),
        probes: vec![Arc::new(CausalProbe { max_missing, max_lattice: if thorough { 10 } else { 8 }, seen: Mutex::new(HashSet::new()) })],
        pools: vec![1],
        time_budget_s: if thorough { 3000 } else { 45 },
        max_states: if thorough { 100_000 } else { 3_000 },
        stop_on_violation: true,
    });
    rep.set("max_missing_items_permuted", json!(max_missing));
    rep.set("rule", json!("for every distinct state and every (source replica, target) pair where the target (a live replica of the state, or an empty fresh replica) lacks 1..N items of the source's storage: EVERY permutation of the missing .delta/.pack files is delivered one file at a time with refresh() after each; after every delivery: applied blocks == causally complete blocks (independent reference over raw bytes), view == fresh open of the same storage == fresh open of the complete sub-store; after the last: == fresh open of the union. Delivery problems are deduplicated on (target state, source storage). distinct_nontrivial = distinct intermediate/final views"));
    rep.assume("reference completeness: block bytes hash to name, index = 1+max parent index, parents complete, named packs present and hashing to their name, every digest in its change records (revision and previous revision) found in some present valid pack or a marker digest");
    finalize(&mut rep);
    rep.finish();
}
