//! C15 — staged changes can be discarded, exported and replayed exactly.
use super::common::*;
use crate::explore::*;
use crate::menu::*;
use crate::report::Report;
use crate::world::*;
use serde_json::json;
use std::sync::Arc;

pub struct StageProbe;

impl Probe for StageProbe {
    fn on_state(&self, sc: &Scenario, hist: &[Op], cx: &mut Cx) {
        let w0 = sc.build(hist);
        if w0.any_dead() {
            return;
        }
        for r in 0..sc.nrep {
            w0.focus();
            let m = &w0.reps[r].m;
            // "staged" also covers values left in the data stage without a staged revision
            // (remove_object of an uncommitted object leaves such values behind)
            let tree_staged = has_staging(m);
            if !tree_staged && stage_export(m).is_null() {
                continue;
            }
            let v0 = w0.view(r);
            let t0 = trees(m);
            let s0 = stage_export(m);
            cx.outcome(sha_hex(s0.to_string().as_bytes()));
            // (a) unstage restores the last committed-or-refreshed state
            if let Some(clean) = &w0.reps[r].last_clean {
                let mut w = sc.build(hist);
                let o = w.apply(&Op::Unstage(r));
                let mut h = hist.to_vec();
                h.push(Op::Unstage(r));
                cx.count("unstage");
                w.focus();
                let (v, t) = (w.view(r), trees(&w.reps[r].m));
                let still = has_staging(&w.reps[r].m) || !stage_export(&w.reps[r].m).is_null();
                if !o.is_ok() || v != clean["view"] || t != clean["trees"] || still {
                    cx.violation("C15", "C15:unstage-did-not-restore-the-clean-state", sc, &h,
                        json!({"replica": r, "outcome": o.text(), "still_staged": still, "view_differs": diff_keys(&v, &clean["view"]), "trees_equal": t == clean["trees"], "view": v, "clean_view": clean["view"], "trees": t, "clean_trees": clean["trees"]}));
                }
            }
            // (b) export, discard, replay
            {
                let mut w = sc.build(hist);
                let o = w.apply(&Op::StageRt(r));
                let mut h = hist.to_vec();
                h.push(Op::StageRt(r));
                cx.count("export_discard_replay");
                w.focus();
                let (v, t, s) = (w.view(r), trees(&w.reps[r].m), stage_export(&w.reps[r].m));
                if !o.is_ok() || v != v0 || t != t0 || s != s0 {
                    cx.violation("C15", "C15:replayed-stage-differs", sc, &h,
                        json!({"replica": r, "outcome": o.text(), "view_differs": diff_keys(&v, &v0), "trees_equal": t == t0, "stage_equal": s == s0, "stage_before": s0, "stage_after": s, "trees_before": t0, "trees_after": t}));
                } else {
                    // (c) committing after the round trip is as durable as committing directly
                    let mut w2 = sc.build(hist);
                    let (a, b) = (w.apply(&Op::Commit(r, 1)), w2.apply(&Op::Commit(r, 1)));
                    cx.count("commit_after_roundtrip");
                    let fa = strip_anchors(&fresh_view(&w.reps[r].store.snapshot(), "C15 reopen after roundtrip"));
                    let fb = strip_anchors(&fresh_view(&w2.reps[r].store.snapshot(), "C15 reopen direct"));
                    if a.is_ok() != b.is_ok() || fa != fb {
                        h.push(Op::Commit(r, 1));
                        cx.violation("C15", "C15:commit-after-roundtrip-differs", sc, &h, json!({"replica": r, "roundtrip": a.text(), "direct": b.text(), "differs": diff_keys(&fa, &fb), "reopened_roundtrip": fa, "reopened_direct": fb}));
                    }
                }
            }
            // (f) discarding and staging the same edits again reaches the same staged state
            {
                let is_edit = |o: &Op| matches!(o, Op::Upd(..) | Op::ObjPut(..) | Op::ObjDel(..));
                // maximal suffix of the history in which replica r only edited
                let suffix_len = hist.iter().rev().take_while(|o| o.replica() != r || is_edit(o)).count();
                let idx = hist.len() - suffix_len;
                let staged_ops: Vec<Op> = hist[idx..].iter().filter(|o| o.replica() == r).cloned().collect();
                let was_clean = {
                    let wpre = sc.build(&hist[..idx]);
                    !wpre.any_dead() && !has_staging(&wpre.reps[r].m)
                };
                if !staged_ops.is_empty() && was_clean {
                    let mut w = sc.build(hist);
                    let mut h = hist.to_vec();
                    w.apply(&Op::Unstage(r));
                    h.push(Op::Unstage(r));
                    for op in &staged_ops {
                        w.apply(op);
                        h.push(op.clone());
                    }
                    w.focus();
                    let (v, s) = (w.view(r), stage_export(&w.reps[r].m));
                    cx.count("discard_and_redo");
                    if v != v0 || s != s0 {
                        cx.violation("C15", "C15:redoing-discarded-edits-gives-a-different-stage", sc, &h,
                            json!({"replica": r, "view_differs": diff_keys(&v, &v0), "stage_equal": s == s0, "stage_first_time": s0, "stage_after_discard_and_redo": s}));
                    }
                }
            }
            // (d) reload / refresh / time travel refuse to run and change nothing
            if !tree_staged {
                continue;
            }
            let mut guarded = vec![Op::Reload(r), Op::Refresh(r)];
            for k in 0..w0.reps[r].heads.len().min(3) {
                guarded.push(Op::Travel(r, k));
            }
            for op in guarded {
                let mut w = sc.build(hist);
                let o = w.apply(&op);
                cx.count("guards");
                w.focus();
                let (v, s) = (w.view(r), stage_export(&w.reps[r].m));
                if !matches!(o, OpOut::Err(_)) || v != v0 || s != s0 {
                    let mut h = hist.to_vec();
                    h.push(op.clone());
                    cx.violation("C15", "C15:operation-ran-or-dropped-staged-changes", sc, &h, json!({"replica": r, "outcome": o.text(), "view_differs": diff_keys(&v, &v0), "stage_equal": s == s0}));
                }
            }
        }
    }
    fn on_transition(&self, sc: &Scenario, hist: &[Op], op: &Op, _pre: &World, out: &OpOut, post: &World, cx: &mut Cx) {
        if let (Op::Commit(r, _), OpOut::Ok(ret)) = (op, out) {
            if ret == "none" {
                // nothing was committed (values orphaned by remove_object may remain in the data stage)
                return;
            }
            cx.count("nothing_staged_after_commit");
            post.focus();
            let m = &post.reps[*r].m;
            let any_tree = m.get_all_objects().iter().any(|u| m.verif_tree_has_staging(u).unwrap_or(false) || m.verif_dump_tree(u).unwrap_or_default().iter().any(|(_, _, s)| *s));
            if has_staging(m) || !stage_export(m).is_null() || any_tree || !m.verif_stage_keys().is_empty() {
                let mut h = hist.to_vec();
                h.push(op.clone());
                cx.violation("C15", "C15:something-staged-after-commit", sc, &h, json!({"replica": r, "stage": stage_export(m)}));
            }
        }
    }
}

pub fn scenarios(thorough: bool) -> Vec<Scenario> {
    let mut v = vec![];
    v.push(pair_scenario("pair-arrays", if thorough { &[1, 2, 3, 6, 9, 8] } else { &[2, 3, 6, 8] }, if thorough { 6 } else { 5 },
        &[Op::Resolve(0, 0, 0), Op::Resolve(1, 0, 1), Op::Snapshot(1), Op::Meld(0, 1)]));
    v.push(pair_conflict_scenario("pair-conflict", 2, 3, if thorough { &[1, 6, 8, 4] } else { &[1, 8] }, if thorough { 5 } else { 4 },
        &[Op::Resolve(1, 0, 0), Op::Resolve(1, 0, 1), Op::Snapshot(1), Op::Travel(1, 0), Op::ObjPut(1, 1), Op::ObjRemove(1, 0), Op::ObjRemove(1, 1)]));
    v.push(single_scenario("single-kinds", kind_docs(), if thorough { 4 } else { 3 }, &[Op::Snapshot(0), Op::Travel(0, 0)]));
    for sc in v.iter_mut() {
        sc.track = true;
        sc.key_opts.heads = true;
    }
    // the same explorations with the staged records exported in reversed hash-iteration order
    let mut rev: Vec<Scenario> = v.iter().cloned().map(|mut s| {
        s.name = format!("{}[hash-order=reverse]", s.name);
        s.order = Some(melda::verif_hooks::order::Mode::Reverse);
        if s.max_depth > 3 { s.max_depth -= 1; }
        s
    }).collect();
    v.append(&mut rev);
    v.extend(cross_scenarios(thorough));
    v.extend(combo_scenarios(thorough));
    v
}

pub fn run(thorough: bool) {
    let mut rep = Report::new("C15", if thorough { "thorough" } else { "quick" }, "model_checking");
    run_h(&mut rep, RunCfg {
        scenarios: scenarios(thorough),
        probes: vec![Arc::new(StageProbe)],
        pools: vec![1],
        time_budget_s: if thorough { 2400 } else { 40 },
        max_states: if thorough { 200_000 } else { 12_000 },
        stop_on_violation: true,
    });
    rep.set("rule", json!("in EVERY state in which a replica has staged changes (creations, updates, deletions, chains of several revisions on one object, array patches, resolutions, snapshots): (a) unstage -> view and full revision-tree dumps equal those recorded at the replica's last moment without staging, nothing staged; (b) stage(); unstage(); replay_stage() -> view, tree dumps (with staged flags) and stage export equal before; (c) commit after that round trip reopens to the same view as a direct commit; (d) reload, refresh and reload_until(each recorded head set) return an error and leave view and stage export unchanged; (e) after every successful commit transition nothing is staged (has_staging, stage(), per-revision flags, staged objects). distinct_nontrivial = distinct stage exports"));
    finalize(&mut rep);
    rep.finish();
}
