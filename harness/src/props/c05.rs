//! C05 — the winning revision follows one fixed deterministic rule.
use super::common::*;
use crate::explore::*;
use crate::menu::*;
use crate::report::Report;
use crate::world::*;
use melda::verif_hooks::{order, Revision, RevisionTree};
use rayon::prelude::*;
use serde_json::{json, Value};
use std::collections::{BTreeMap, BTreeSet};
use std::sync::atomic::{AtomicU64, Ordering};
use std::sync::{Arc, Mutex};

/// (revision string, parent string) pairs generated the way the system generates revisions
pub fn universe(extended: bool) -> Vec<(Revision, Option<Revision>)> {
    let h1 = sha_hex(b"a");
    let h2 = sha_hex(b"b");
    let mut u: Vec<(Revision, Option<Revision>)> = vec![];
    let mut layer: Vec<Revision> = vec![];
    for h in [&h1, &h2] {
        let r = Revision::new(1, h.clone(), None);
        u.push((r.clone(), None));
        layer.push(r);
    }
    for _ in 0..2 {
        let mut next = vec![];
        for p in &layer {
            let kids = vec![
                Revision::new_updated(h1.clone(), p),
                Revision::new_updated(h2.clone(), p),
                Revision::new_deleted(p),
                Revision::new_resolved(p),
            ];
            for k in kids {
                u.push((k.clone(), Some(p.clone())));
                next.push(k);
            }
        }
        layer = next;
    }
    if extended {
        // a chain crossing the decimal-length boundary of the index (…, 9, 10, 11, 12) with a fork at 9/10
        let mut cur = Revision::new(1, h1.clone(), None);
        for i in 0..11 {
            let d = if i % 2 == 0 { &h2 } else { &h1 };
            let n = Revision::new_updated(d.clone(), &cur);
            if n.index() >= 8 {
                u.push((n.clone(), Some(cur.clone())));
                if n.index() == 9 {
                    let f = Revision::new_updated(h1.clone(), &cur);
                    u.push((f.clone(), Some(cur.clone())));
                    let f2 = Revision::new_deleted(&f);
                    u.push((f2, Some(f)));
                }
            }
            cur = n;
        }
    }
    u
}

/// reference: (leaves, winner) of a set of (revision, parent) entries
pub fn reference(entries: &[(String, Option<String>)]) -> (BTreeSet<String>, Option<String>) {
    let map: BTreeMap<&str, Option<&str>> = entries.iter().map(|(r, p)| (r.as_str(), p.as_deref())).collect();
    let parents: BTreeSet<&str> = entries.iter().filter_map(|(_, p)| p.as_deref()).collect();
    let idx = |r: &str| -> u64 { r.split_once('-').unwrap().0.parse().unwrap() };
    let digest = |r: &str| -> String { crate::refmodel::rev_digest(r).unwrap() };
    let mut leaves = BTreeSet::new();
    for (r, _) in &map {
        if digest(r) == "r" || parents.contains(r) {
            continue;
        }
        // ancestry reaches an index-1 parentless member
        let mut cur = *r;
        let mut ok = false;
        let mut steps = 0;
        loop {
            steps += 1;
            if steps > 1000 {
                break;
            }
            match map.get(cur) {
                None => break,
                Some(None) => {
                    ok = idx(cur) == 1;
                    break;
                }
                Some(Some(p)) => cur = p,
            }
        }
        if ok {
            leaves.insert(r.to_string());
        }
    }
    let winner = leaves.iter().max_by(|a, b| idx(a).cmp(&idx(b)).then_with(|| a.as_bytes().cmp(b.as_bytes()))).cloned();
    (leaves, winner)
}

fn subsets(n: usize, k: usize) -> Vec<Vec<usize>> {
    fn rec(start: usize, n: usize, k: usize, cur: &mut Vec<usize>, out: &mut Vec<Vec<usize>>) {
        if cur.len() == k {
            out.push(cur.clone());
            return;
        }
        for i in start..n {
            cur.push(i);
            rec(i + 1, n, k, cur, out);
            cur.pop();
        }
    }
    let mut out = vec![];
    rec(0, n, k, &mut vec![], &mut out);
    out
}

pub fn tree_sweep(rep: &mut Report, thorough: bool) {
    let u = universe(true);
    let us: Vec<(String, Option<String>)> = u.iter().map(|(r, p)| (r.to_string(), p.as_ref().map(|p| p.to_string()))).collect();
    let n = u.len();
    let kmax = if thorough { 5 } else { 4 };
    let evals = AtomicU64::new(0);
    let nontrivial = AtomicU64::new(0);
    let outcomes: Mutex<BTreeSet<String>> = Mutex::new(BTreeSet::new());
    let bad: Mutex<Vec<Value>> = Mutex::new(vec![]);
    let mut subset_count = 0u64;
    for k in 1..=kmax {
        // the largest size is restricted to the first 42 (depth-3) revisions in the quick tier
        let nn = if k == kmax && !thorough { 42.min(n) } else if k == 5 { 30.min(n) } else { n };
        let subs = subsets(nn, k);
        subset_count += subs.len() as u64;
        let perms = permutations(k);
        subs.par_iter().for_each(|s| {
            let entries: Vec<(String, Option<String>)> = s.iter().map(|&i| us[i].clone()).collect();
            let (leaves, winner) = reference(&entries);
            if leaves.len() > 1 {
                nontrivial.fetch_add(1, Ordering::Relaxed);
            }
            {
                let mut o = outcomes.lock().unwrap();
                if o.len() < 100_000 {
                    o.insert(format!("{}|{:?}", leaves.len(), winner));
                }
            }
            let check = |t: &RevisionTree, how: &str| {
                evals.fetch_add(1, Ordering::Relaxed);
                let l: BTreeSet<String> = t.get_leafs().iter().map(|r| r.to_string()).collect();
                let w = t.get_winner().map(|r| r.to_string());
                if l != leaves || w != winner {
                    let mut b = bad.lock().unwrap();
                    if b.len() < 3 {
                        b.push(json!({"input": entries, "how": how, "leaves": l, "winner": w, "expected_leaves": leaves, "expected_winner": winner}));
                    }
                }
            };
            // (a) add() in every insertion order
            for p in &perms {
                let mut t = RevisionTree::new();
                for &j in p {
                    let (r, par) = &u[s[j]];
                    t.add(r.clone(), par.clone(), false);
                }
                check(&t, &format!("add in order {:?}", p));
            }
            // (b) unvalidated_add + validate under permuted hash-iteration orders
            for (mi, mode) in [order::Mode::Sorted, order::Mode::Reverse, order::Mode::Rotate(1), order::Mode::Rotate(2)].iter().enumerate() {
                order::set_thread_source(Some(order::Source::new(mode.clone())));
                let mut t = RevisionTree::new();
                for &i in s.iter().rev() {
                    let (r, par) = &u[i];
                    t.unvalidated_add(r.clone(), par.clone(), false);
                }
                t.validate();
                check(&t, &format!("unvalidated_add+validate, iteration mode {}", mi));
                order::set_thread_source(None);
            }
        });
    }
    let b = bad.into_inner().unwrap();
    for d in &b {
        rep.violations.push(Violation { property: "C05".into(), signature: "C05:tree-differs-from-reference".into(), scenario: "tree-sweep".into(), history: vec![], detail: d.clone() });
    }
    let ev = evals.load(Ordering::Relaxed);
    rep.add_u64("evaluations", ev);
    rep.set("tree_sweep", json!({"universe": n, "max_subset_size": kmax, "subsets": subset_count, "tree_builds": ev, "subsets_with_conflict": nontrivial.load(Ordering::Relaxed), "distinct_outcomes": outcomes.lock().unwrap().len(), "failing": b.len()}));
    rep.push_sample(json!({"tree_entries": us.iter().take(5).collect::<Vec<_>>()}));
    let cur = rep.coverage.get("distinct_nontrivial").and_then(|v| v.as_u64()).unwrap_or(0);
    rep.set("distinct_nontrivial", json!(cur + outcomes.lock().unwrap().len() as u64));
}

/// engine H part: in every state, every object's winner / conflict set equals the reference
pub struct WinnerProbe;

impl Probe for WinnerProbe {
    fn on_state(&self, sc: &Scenario, hist: &[Op], cx: &mut Cx) {
        let w = sc.build(hist);
        if w.any_dead() {
            return;
        }
        for r in 0..sc.nrep {
            w.focus();
            let m = &w.reps[r].m;
            let mut conflicted = BTreeSet::new();
            for uuid in m.get_all_objects() {
                let dump = m.verif_dump_tree(&uuid).unwrap();
                let entries: Vec<(String, Option<String>)> = dump.iter().map(|(r, p, _)| (r.clone(), p.clone())).collect();
                let (leaves, winner) = reference(&entries);
                cx.count("object_winner_checks");
                let got_w = m.get_winner(&uuid).ok();
                let got_c: Option<BTreeSet<String>> = m.get_conflicting(&uuid).ok();
                let want_c: BTreeSet<String> = leaves.iter().filter(|l| Some(*l) != winner.as_ref()).cloned().collect();
                if leaves.len() > 1 {
                    conflicted.insert(uuid.clone());
                    cx.outcome(format!("{}:{:?}", uuid, leaves));
                }
                if got_w != winner || (winner.is_some() && got_c != Some(want_c.clone())) {
                    cx.violation("C05", "C05:winner-or-conflicts-differ-from-reference", sc, hist,
                        json!({"replica": r, "uuid": uuid, "tree": dump, "winner": got_w, "conflicting": got_c, "expected_winner": winner, "expected_conflicting": want_c}));
                    return;
                }
            }
            cx.count("in_conflict_checks");
            let ic = m.in_conflict();
            if ic != conflicted {
                cx.violation("C05", "C05:in_conflict-differs-from-reference", sc, hist, json!({"replica": r, "in_conflict": ic, "expected": conflicted}));
                return;
            }
        }
    }
}

pub fn scenarios(thorough: bool) -> Vec<Scenario> {
    let mut v = vec![];
    v.push(pair_scenario("pair-arrays", if thorough { &[1, 2, 3, 4, 6, 9] } else { &[2, 3, 4, 9] }, if thorough { 6 } else { 5 },
        &[Op::Resolve(0, 0, 0), Op::Resolve(1, 0, 1), Op::Resolve(1, 1, 0), Op::Unstage(0)]));
    v.push(pair_conflict_scenario("pair-conflict-edit-vs-delete", 4, 3, &[8, 9, 2], if thorough { 5 } else { 4 },
        &[Op::Resolve(1, 0, 0), Op::Resolve(1, 0, 1), Op::Resolve(1, 1, 0), Op::Resolve(0, 0, 1), Op::Resolve(1, 1, 1), Op::Unstage(1), Op::Unstage(0)]));
    v.push(trio_scenario("trio", if thorough { 7 } else { 6 }));
    v.push(long_chain_scenario("pair-long-chain", if thorough { 4 } else { 3 }, &[Op::Resolve(1, 0, 0), Op::Resolve(0, 0, 1)]));
    v.push(tie_scenario("pair-tie", if thorough { 4 } else { 3 }, &[Op::Resolve(1, 0, 0), Op::Resolve(1, 0, 1), Op::Unstage(1)]));
    v.push(three_leaves_scenario("trio-three-leaves", if thorough { 4 } else { 3 }, &[Op::Unstage(0)]));
    v.push(pair_conflict_scenario("pair-edit-hi-vs-delete", 15, 3, &[9], if thorough { 4 } else { 3 }, &[Op::Resolve(1, 0, 0), Op::Resolve(1, 1, 1), Op::Unstage(1)]));
    // depth 2 in both tiers: every pair of operations from every prepared state
    v.extend(cross_scenarios_depth(2));
    v.extend(combo_scenarios(thorough));
    v
}

/// the comparison of revisions equals the stated rule (resolution markers lowest, then numeric index,
/// then bytes of the printed identifier) on ALL ordered pairs of the constructor-reachable revisions
pub fn order_pairs(rep: &mut Report, thorough: bool) {
    let mut rs: Vec<Revision> = crate::props::c19::reachable(thorough).into_iter().map(|(r, _, _)| r).collect();
    // content digests are arbitrary hex strings: add revisions whose digest has the one-character deletion / empty
    // markers ("d", "e") as a PREFIX, followed by a digit or a letter (the identifier's "_" separator sorts between
    // them), character codes, and full-length digests, on the same and on different parents
    {
        let parents = [Revision::new(1u32, "aaaa", None), Revision::new(1u32, "bbbb", None), Revision::new(9u32, "cccc", Some(&Revision::new(8u32, "aaaa", None)))];
        let long_d4 = format!("d4{}", "7".repeat(62));
        let long_da = format!("da{}", "7".repeat(62));
        let long_e0 = format!("e0{}", "7".repeat(62));
        let digests = ["d", "e", "d0", "d4aa", "d9", "da", "dfff", "e0", "e9", "ea", "0", "f", "41", "c", "cf", long_d4.as_str(), long_da.as_str(), long_e0.as_str()];
        for p in &parents {
            for d in digests {
                let r = Revision::new(p.index() + 1, d, Some(p));
                if !rs.contains(&r) {
                    rs.push(r);
                }
            }
        }
        for d in digests {
            let r = Revision::new(1u32, d, None);
            if !rs.contains(&r) {
                rs.push(r);
            }
        }
    }
    let key = |r: &Revision| -> (u8, u64, String) {
        let s = r.to_string();
        if r.is_resolved() { (0, 0, s) } else { (1, r.index() as u64, s) }
    };
    let mut n = 0u64;
    let mut bad = 0;
    for a in &rs {
        for b in &rs {
            n += 1;
            let want = key(a).cmp(&key(b));
            // the comparison operators (PartialOrd) agree with the total order, and equality with both
            if (a.partial_cmp(b) != Some(a.cmp(b)) || (a > b) != (a.cmp(b) == std::cmp::Ordering::Greater) || (a == b) != (a.cmp(b) == std::cmp::Ordering::Equal)) && bad < 2 {
                bad += 1;
                rep.violations.push(Violation { property: "C05".into(), signature: "C05:comparison-operators-disagree-with-the-total-order".into(), scenario: "order-pairs".into(), history: vec![],
                    detail: json!({"input": {"a": a.to_string(), "b": b.to_string()}, "cmp": format!("{:?}", a.cmp(b)), "partial_cmp": format!("{:?}", a.partial_cmp(b)), "gt": a > b, "eq": a == b}) });
            }
            if a.cmp(b) != want && bad < 2 {
                bad += 1;
                rep.violations.push(Violation { property: "C05".into(), signature: "C05:revision-order-differs-from-stated-rule".into(), scenario: "order-pairs".into(), history: vec![],
                    detail: json!({"input": {"a": a.to_string(), "b": b.to_string()}, "cmp": format!("{:?}", a.cmp(b)), "rule": format!("{:?}", want)}) });
            }
        }
    }
    rep.add_u64("evaluations", n);
    rep.set("order_pairs", json!({"revisions": rs.len(), "ordered_pairs": n}));
}

pub fn run(thorough: bool) {
    let mut rep = Report::new("C05", if thorough { "thorough" } else { "quick" }, "model_checking");
    run_h(&mut rep, RunCfg {
        scenarios: scenarios(thorough),
        probes: vec![Arc::new(WinnerProbe)],
        pools: vec![1],
        time_budget_s: if thorough { 1800 } else { 30 },
        max_states: if thorough { 300_000 } else { 10_000 },
        stop_on_violation: true,
    });
    tree_sweep(&mut rep, thorough);
    order_pairs(&mut rep, thorough);
    rep.set("rule", json!("(P) a universe of revisions generated by the system's own constructors (two roots, update/delete/resolve children to depth 3, plus a chain crossing the 9->10 index boundary with a fork); EVERY subset up to the stated size (dangling parents and missing roots included) is inserted through add() in EVERY insertion order and through unvalidated_add+validate under 4 hash-iteration orders; leaves and winner must equal an independent reference (leaf = not a resolution marker, nobody's parent, ancestry reaches an index-1 parentless member; winner = max by (index, bytes of printed identifier)). (H) in every state of the explored replica histories every object's get_winner / get_conflicting / in_conflict equals the same reference computed from the tree dump."));
    finalize(&mut rep);
    rep.finish();
}
