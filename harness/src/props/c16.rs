//! C16 — delta-encoded arrays reconstruct exactly.
use super::common::*;
use crate::explore::*;
use crate::menu::*;
use crate::report::Report;
use crate::world::*;
use melda::verif_hooks::{apply_diff_patch, make_diff_patch};
use rayon::prelude::*;
use serde_json::{json, Value};
use std::collections::BTreeMap;
use std::sync::atomic::{AtomicU64, Ordering};
use std::sync::Mutex;

/// all sequences WITH repetition over k symbols up to length l
fn sequences_rep(k: usize, l: usize) -> Vec<Vec<u8>> {
    let mut out: Vec<Vec<u8>> = vec![vec![]];
    let mut layer: Vec<Vec<u8>> = vec![vec![]];
    for _ in 0..l {
        let mut next = vec![];
        for s in &layer {
            for a in 0..k as u8 {
                let mut t = s.clone();
                t.push(a);
                next.push(t);
            }
        }
        out.extend(next.iter().cloned());
        layer = next;
    }
    out
}

fn vals(s: &[u8]) -> Vec<Value> {
    s.iter().map(|c| Value::from(((b'a' + c) as char).to_string())).collect()
}

pub fn patch_sweep(rep: &mut Report, thorough: bool) {
    let (k, l) = if thorough { (4, 6) } else { (3, 6) };
    let seqs = sequences_rep(k, l);
    let vs: Vec<Vec<Value>> = seqs.iter().map(|s| vals(s)).collect();
    let pairs = AtomicU64::new(0);
    let nonempty = AtomicU64::new(0);
    let bad: Mutex<Vec<Value>> = Mutex::new(vec![]);
    (0..vs.len()).into_par_iter().for_each(|i| {
        let mut cnt = 0u64;
        let mut ne = 0u64;
        for j in 0..vs.len() {
            cnt += 1;
            let (old, new) = (&vs[i], &vs[j]);
            let r = crate::guard::call("diff/patch", || {
                let p = make_diff_patch(old, new).map_err(|e| e.to_string())?;
                let mut o = old.clone();
                apply_diff_patch(&mut o, &p).map_err(|e| e.to_string())?;
                // the patch also survives serialisation (it is stored as JSON)
                let p2: Vec<Value> = serde_json::from_str(&serde_json::to_string(&p).unwrap()).unwrap();
                let mut o2 = old.clone();
                apply_diff_patch(&mut o2, &p2).map_err(|e| e.to_string())?;
                Ok::<_, String>((p.len(), o, o2))
            });
            let err = match r {
                Err(p) => Some(format!("panic: {}", p)),
                Ok(Err(e)) => Some(format!("error: {}", e)),
                Ok(Ok((plen, o, o2))) => {
                    if plen > 0 {
                        ne += 1;
                    }
                    if &o != new || &o2 != new {
                        Some("reconstruction differs".to_string())
                    } else if plen == 0 && old != new {
                        Some("empty patch for different arrays".to_string())
                    } else {
                        None
                    }
                }
            };
            if let Some(e) = err {
                let mut b = bad.lock().unwrap();
                if b.len() < 3 {
                    b.push(json!({"input": {"old": seqs[i], "new": seqs[j]}, "error": e}));
                }
            }
        }
        pairs.fetch_add(cnt, Ordering::Relaxed);
        nonempty.fetch_add(ne, Ordering::Relaxed);
    });
    let b = bad.into_inner().unwrap();
    for d in &b {
        rep.violations.push(Violation { property: "C16".into(), signature: "C16:diff-patch-roundtrip".into(), scenario: "patch-sweep".into(), history: vec![], detail: d.clone() });
    }
    let p = pairs.load(Ordering::Relaxed);
    rep.add_u64("evaluations", p);
    rep.set("patch_sweep", json!({"symbols": k, "max_len": l, "sequences": seqs.len(), "ordered_pairs": p, "pairs_with_nonempty_patch": nonempty.load(Ordering::Relaxed), "failing": b.len()}));
    rep.push_sample(json!({"patch_pair": {"old": seqs[seqs.len() / 3], "new": seqs[seqs.len() / 2]}}));
}

/// the 16 duplicate-free arrays over {x,y,z}, plus "key absent"
fn chain_docs() -> Vec<Value> {
    let el = |c: u8| match c {
        0 => x(),
        1 => y(),
        _ => z(),
    };
    let mut docs: Vec<Value> = crate::props::c06::sequences(3, 3).iter().map(|s| json!({"l♭": s.iter().map(|&c| el(c)).collect::<Vec<_>>()})).collect();
    docs.push(json!({}));
    docs
}

/// plain-string arrays WITH repetition (every sequence over two strings up to length 3)
fn chain_docs_repeated_strings() -> Vec<Value> {
    let mut docs: Vec<Value> = sequences_rep(2, 3).iter().map(|s| json!({"l♭": s.iter().map(|&c| if c == 0 { "p" } else { "q" }).collect::<Vec<_>>()})).collect();
    docs.push(json!({}));
    docs
}

/// One chain: returns a violation detail if any reconstruction differs
fn run_chain(menu: &std::sync::Arc<Menu>, chain: &[usize], commit_each: bool) -> Result<u64, Value> {
    let mut w = World::new(1, menu.clone());
    let mut checks = 0u64;
    let mut expected_by_rev: BTreeMap<String, Value> = BTreeMap::new();
    let duuid = "^\u{221A}@l\u{266D}";
    let mut hist = vec![];
    for (step, &d) in chain.iter().enumerate() {
        let mut ops = vec![Op::Upd(0, d)];
        if commit_each || step + 1 == chain.len() {
            ops.push(Op::Commit(0, 0));
        }
        for op in ops {
            let o = w.apply(&op);
            hist.push(op.short());
            if !o.is_ok() {
                return Err(json!({"history": hist, "error": o.text()}));
            }
        }
        let want = crate::props::c04::expect_tracked(menu.docs[d].as_object().unwrap(), &[]);
        let got = read_doc(&w.reps[0].m);
        checks += 1;
        if !got.get("ok").is_some_and(|g| crate::props::c04::same_doc(&want, g)) {
            return Err(json!({"history": hist, "error": "read differs from submitted array", "read": got, "expected": want}));
        }
        if let Some(arr) = menu.docs[d].get("l♭") {
            if let Ok(wr) = w.reps[0].m.get_winner(duuid) {
                // (stored form of an element: the identifier of a tracked object, "!<string>" for a plain string)
                let ids: Vec<Value> = arr.as_array().unwrap().iter().map(|e| match e.as_str() { Some(s) => json!(format!("!{}", s)), None => e["_id"].clone() }).collect();
                expected_by_rev.insert(wr, Value::Array(ids));
            }
        }
    }
    // cold reopen
    let store = w.reps[0].store.snapshot();
    let (m, _s) = fresh_on(&store, "C16 reopen").map_err(|e| json!({"history": hist, "error": e}))?;
    let want = crate::props::c04::expect_tracked(menu.docs[*chain.last().unwrap()].as_object().unwrap(), &[]);
    let got = read_doc(&m);
    checks += 1;
    if !got.get("ok").is_some_and(|g| crate::props::c04::same_doc(&want, g)) {
        return Err(json!({"history": hist, "error": "read after cold reopen differs", "read": got, "expected": want}));
    }
    // every stored version reconstructs to what was submitted (live replica: warm caches; reopened: cold)
    for (who, mm) in [("live", &w.reps[0].m), ("reopened", &m)] {
        for (rev, exp) in &expected_by_rev {
            checks += 1;
            match crate::guard::call("verif_array_order", || mm.verif_array_order(duuid, rev)) {
                Ok(Ok(o)) => {
                    if &Value::Array(o.clone()) != exp {
                        return Err(json!({"history": hist, "error": format!("stored version {} reconstructs differently on the {} replica", rev, who), "got": o, "expected": exp}));
                    }
                }
                Ok(Err(e)) => return Err(json!({"history": hist, "error": format!("version {} unreadable on {}: {}", rev, who, e)})),
                Err(p) => return Err(json!({"history": hist, "error": format!("panic reading version {} on {}: {}", rev, who, p)})),
            }
        }
    }
    Ok(checks)
}

/// chain exploration under the cache capacities given by the current process environment
pub fn chains_part(thorough: bool) -> Value {
    let a = chains_part_docs(thorough, chain_docs());
    let b = chains_part_docs(thorough, chain_docs_repeated_strings());
    let mut bad: Vec<Value> = a["bad"].as_array().cloned().unwrap_or_default();
    bad.extend(b["bad"].as_array().cloned().unwrap_or_default());
    json!({
        "array_cache_cap": a["array_cache_cap"], "data_cache_cap": a["data_cache_cap"],
        "chains": a["chains"].as_u64().unwrap_or(0) + b["chains"].as_u64().unwrap_or(0),
        "max_chain_len": a["max_chain_len"],
        "docs": a["docs"].as_u64().unwrap_or(0) + b["docs"].as_u64().unwrap_or(0),
        "checks": a["checks"].as_u64().unwrap_or(0) + b["checks"].as_u64().unwrap_or(0),
        "families": ["tracked elements x,y,z without repetition", "plain strings p,q with repetition"],
        "bad": bad,
    })
}

fn chains_part_docs(thorough: bool, docs: Vec<Value>) -> Value {
    let n = docs.len();
    let m = menu(docs);
    let len = if thorough { 4 } else { 3 };
    let mut chains: Vec<Vec<usize>> = vec![vec![]];
    let mut all: Vec<Vec<usize>> = vec![];
    for _ in 0..len {
        let mut next = vec![];
        for c in &chains {
            for d in 0..n {
                let mut t = c.clone();
                t.push(d);
                next.push(t);
            }
        }
        all.extend(next.iter().cloned());
        chains = next;
    }
    let checks = AtomicU64::new(0);
    let bad: Mutex<Vec<Value>> = Mutex::new(vec![]);
    all.par_iter().for_each(|c| {
        for commit_each in [true, false] {
            match run_chain(&m, c, commit_each) {
                Ok(k) => {
                    checks.fetch_add(k, Ordering::Relaxed);
                }
                Err(d) => {
                    let mut b = bad.lock().unwrap();
                    if b.len() < 3 {
                        b.push(d);
                    }
                }
            }
        }
    });
    json!({
        "array_cache_cap": std::env::var("MELDA_ARRAYDESCRIPTORS_CACHE_CAP").unwrap_or_default(),
        "data_cache_cap": std::env::var("MELDA_DATA_CACHE_CAP").unwrap_or_default(),
        "chains": all.len() * 2,
        "max_chain_len": len,
        "docs": n,
        "checks": checks.load(Ordering::Relaxed),
        "bad": bad.into_inner().unwrap(),
    })
}

/// engine H part: in every state of multi-replica histories every stored array version known to a
/// replica (warm author or cold reader) reconstructs to the array that was submitted
pub struct StoredVersionsProbe;

impl Probe for StoredVersionsProbe {
    fn on_state(&self, sc: &Scenario, hist: &[Op], cx: &mut Cx) {
        let w = sc.build(hist);
        if w.any_dead() {
            return;
        }
        if let Some(c) = w.truth_conflicts.first() {
            cx.violation("C16", "C16:update-did-not-record-the-submitted-array", sc, hist, c.clone());
            return;
        }
        for r in 0..sc.nrep {
            w.focus();
            let m = &w.reps[r].m;
            for ((uuid, rev), want) in &w.truth {
                let known = m.verif_dump_tree(uuid).map(|t| t.iter().any(|(x, _, _)| x == rev)).unwrap_or(false);
                if !known {
                    continue;
                }
                cx.count("stored_version_checks");
                match crate::guard::call("verif_array_order", || m.verif_array_order(uuid, rev)) {
                    Ok(Ok(o)) => {
                        let got: Vec<String> = o.iter().filter_map(|x| x.as_str().map(|s| s.to_string())).collect();
                        if &got != want {
                            cx.violation("C16", "C16:stored-version-reconstructs-differently", sc, hist,
                                json!({"replica": r, "uuid": uuid, "revision": rev, "reconstructed": got, "submitted": want}));
                            return;
                        }
                        cx.outcome(format!("{}:{:?}", rev, got));
                    }
                    Ok(Err(e)) => {
                        cx.violation("C16", "C16:stored-version-unreadable", sc, hist, json!({"replica": r, "uuid": uuid, "revision": rev, "error": e.to_string()}));
                        return;
                    }
                    Err(p) => {
                        cx.violation("C16", "C16:stored-version-panics", sc, hist, json!({"replica": r, "uuid": uuid, "revision": rev, "panic": p}));
                        return;
                    }
                }
            }
        }
    }
}

fn h_scenarios(thorough: bool) -> Vec<Scenario> {
    vec![
        pair_scenario("pair-arrays", if thorough { &[1, 2, 3, 5, 6, 11] } else { &[1, 2, 3, 5] }, if thorough { 6 } else { 5 }, &[Op::Reopen(1), Op::Travel(1, 0)]),
        pair_conflict_scenario("pair-conflict", 2, 3, if thorough { &[1, 5, 11, 4] } else { &[1, 5] }, if thorough { 5 } else { 4 }, &[Op::Reopen(1), Op::Reopen(0), Op::Resolve(1, 0, 0)]),
        diamond_scenario("pair-diamond", &[1, 5], if thorough { 4 } else { 3 }, &[Op::Reopen(0), Op::Travel(0, 1), Op::Travel(0, 2)]),
        trio_scenario("trio", if thorough { 7 } else { 6 }),
    ]
}

pub fn run(thorough: bool, rest: &[String]) {
    if rest.first().map(|s| s.as_str()) == Some("--part-chains") {
        println!("RESULT {}", chains_part(thorough));
        return;
    }
    let mut rep = Report::new("C16", if thorough { "thorough" } else { "quick" }, "exploration");
    patch_sweep(&mut rep, thorough);
    // chain walk repeated in child processes for every cache-capacity configuration (the capacities
    // are read from the environment when a replica is constructed)
    let exe = std::env::current_exe().unwrap();
    let mut parts = vec![];
    let mut children = vec![];
    for ac in ["1", "2", "16"] {
        for dc in ["1", "16"] {
            let child = std::process::Command::new(&exe)
                .args(["C16", "--tier", if thorough { "thorough" } else { "quick" }, "--part-chains"])
                .env("MELDA_ARRAYDESCRIPTORS_CACHE_CAP", ac)
                .env("MELDA_DATA_CACHE_CAP", dc)
                .env("RAYON_NUM_THREADS", "8")
                .stdout(std::process::Stdio::piped())
                .spawn()
                .expect("cannot spawn child");
            children.push(child);
        }
    }
    for child in children {
        let out = child.wait_with_output().expect("child failed");
        let s = String::from_utf8_lossy(&out.stdout);
        let line = s.lines().find(|l| l.starts_with("RESULT ")).unwrap_or_else(|| {
            eprintln!("MACHINERY: chain child produced no result: {}", s);
            std::process::exit(2);
        });
        let v: Value = serde_json::from_str(&line[7..]).unwrap();
        for d in v["bad"].as_array().unwrap() {
            let mut d = d.clone();
            d["array_cache_cap"] = v["array_cache_cap"].clone();
            d["data_cache_cap"] = v["data_cache_cap"].clone();
            rep.violations.push(Violation { property: "C16".into(), signature: "C16:chain-reconstruction".into(), scenario: "chains".into(), history: vec![], detail: d });
        }
        rep.add_u64("evaluations", v["checks"].as_u64().unwrap_or(0));
        let mut v2 = v.clone();
        v2.as_object_mut().unwrap().remove("bad");
        parts.push(v2);
    }
    rep.set("chain_walks", json!(parts));
    rep.push_sample(json!({"chain": ["upd {l♭:[x,y]}", "commit", "upd {l♭:[y,x,z]}", "commit", "upd {}", "commit", "reopen", "read", "rebuild every stored version"]}));
    // multi-replica histories (cold readers, time travel, reopen) under three cache capacities
    for cap in ["1", "2", "16"] {
        std::env::set_var("MELDA_ARRAYDESCRIPTORS_CACHE_CAP", cap);
        let mut scs = h_scenarios(thorough);
        for sc in scs.iter_mut() {
            sc.name = format!("{}[array_cache_cap={}]", sc.name, cap);
            sc.key_opts.heads = true;
            // cold and warm reconstruction caches are different states here; read() warms them
            sc.key_opts.acache = true;
            for r in 0..sc.nrep.min(2) {
                sc.alphabet.push(Op::Read(r));
            }
            if !thorough && sc.max_depth > 3 {
                sc.max_depth -= 1;
            }
        }
        run_h(&mut rep, RunCfg { scenarios: scs, probes: vec![std::sync::Arc::new(StoredVersionsProbe)], pools: vec![1], time_budget_s: if thorough { 900 } else { 15 }, max_states: if thorough { 100_000 } else { 4_000 }, stop_on_violation: true });
    }
    // long chains read cold: for EVERY chain length 1..=N of successive single-step edits of one array (insert at
    // the front, at the back, in the middle, remove, swap - cycling), a freshly opened replica on the same storage
    // must read exactly the version submitted last; capacities 1 and 2 (the walk is much longer than the cache)
    {
        let n_max: usize = if thorough { 96 } else { 40 };
        let mut long_checks = 0u64;
        for cap in ["1", "2"] {
            std::env::set_var("MELDA_ARRAYDESCRIPTORS_CACHE_CAP", cap);
            let capv = cap.to_string();
            let res = std::panic::catch_unwind(move || -> (u64, Option<Value>) {
                use std::sync::{Arc, RwLock};
                let ad: Arc<RwLock<Box<dyn melda::adapter::Adapter>>> = Arc::new(RwLock::new(Box::new(melda::memoryadapter::MemoryAdapter::new())));
                let w = melda::melda::Melda::new(ad.clone()).expect("new");
                let mut cur: Vec<String> = vec!["a".into(), "b".into(), "c".into()];
                let mut n = 0u64;
                for k in 0..n_max {
                    match k % 5 {
                        0 => cur.insert(0, format!("f{}", k)),
                        1 => cur.push(format!("t{}", k)),
                        2 => { let m = cur.len() / 2; cur.insert(m, format!("m{}", k)) }
                        3 => { let m = cur.len() / 3; cur.remove(m); }
                        _ => { let l = cur.len(); cur.swap(0, l - 1) }
                    }
                    let doc = json!({"l\u{266D}": cur.iter().map(|i| json!({"_id": i, "v": 1})).collect::<Vec<_>>()});
                    w.update(doc.as_object().unwrap().clone()).expect("update");
                    w.commit(None).expect("commit");
                    let cold = melda::melda::Melda::new(ad.clone()).expect("reopen");
                    let got = cold.read(None).expect("read");
                    n += 1;
                    // (read() adds the root identifier; the comparison is on the document's only field)
                    if got.get("l\u{266D}") != doc.get("l\u{266D}") || got.len() != 2 {
                        return (n, Some(json!({"chain_length": k + 1, "array_cache_cap": capv, "submitted": doc, "cold_read": got})));
                    }
                }
                (n, None)
            });
            match res {
                Ok((n, bad)) => {
                    long_checks += n;
                    if let Some(d) = bad {
                        rep.violations.push(Violation { property: "C16".into(), signature: "C16:long-chain-cold-read".into(), scenario: "long-chain".into(), history: vec![], detail: d });
                    }
                }
                Err(e) => {
                    let m = e.downcast_ref::<String>().cloned().or_else(|| e.downcast_ref::<&str>().map(|s| s.to_string())).unwrap_or_default();
                    rep.violations.push(Violation { property: "C16".into(), signature: "C16:long-chain-cold-read-panicked".into(), scenario: "long-chain".into(), history: vec![], detail: json!({"array_cache_cap": cap, "panic": m, "input": format!("chain of up to {} single-step edits of l♭ starting from [a,b,c] (front/back/middle insert, remove, swap cycling), cold reopen + read after every commit", n_max)}) });
                }
            }
        }
        rep.add_u64("evaluations", long_checks);
        rep.set("long_chain_cold_reads", json!({"max_chain_length": n_max, "array_cache_caps": ["1", "2"], "cold_reads_compared": long_checks}));
    }
    std::env::remove_var("MELDA_ARRAYDESCRIPTORS_CACHE_CAP");
    rep.coverage.remove("_outcomes");
    // the cache shortcut of the chain walk under every schedule of the parallel readers (engine S):
    // three arrays, cache capacity 3, reader two versions behind its cached ancestors
    crate::props::engine_s::run_engine_s_only(&mut rep, thorough, "C16", Some("multi-array"));
    let np = rep.coverage["patch_sweep"]["pairs_with_nonempty_patch"].as_u64().unwrap_or(0);
    rep.set("distinct_nontrivial", json!(np));
    rep.set("exhaustive", json!(true));
    rep.set("rule", json!("(a) ALL ordered pairs (old,new) of sequences WITH repetition over k symbols up to length L: apply_diff_patch(old, make_diff_patch(old,new)) == new, also after the patch went through JSON, no panic; distinct_nontrivial = pairs with a non-empty patch. (b) EVERY chain up to the stated length over the 16 duplicate-free arrays on {x,y,z} plus 'key absent' (emptying, refilling, removing and re-adding the key included), committing after every step or only at the end: read after each step, read after a cold reopen, and the reconstruction of every stored version on the warm and the cold replica equal what was submitted; the whole walk is repeated for MELDA_ARRAYDESCRIPTORS_CACHE_CAP in {1,2,16} x MELDA_DATA_CACHE_CAP in {1,16}. (b2) EVERY chain length 1..40 (thorough 1..96) of successive single-step edits of one array (front / back / middle insert, remove, swap) x MELDA_ARRAYDESCRIPTORS_CACHE_CAP in {1,2}: a freshly opened replica on the same storage reads exactly the version submitted last (coverage.long_chain_cold_reads). (c) engine S: every schedule (preemption bound 1 quick / 2 thorough) of read and update on a replica with three arrays, a full cache of capacity 3 and cached ancestors two versions behind must give the sequential result."));
    rep.finish();
}
