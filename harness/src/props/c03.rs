//! C03 — a successful commit is durable and reopens to the same state.
use super::common::*;
use crate::explore::*;
use crate::menu::*;
use crate::report::Report;
use crate::world::*;
use rayon::prelude::*;
use serde_json::{json, Value};
use std::sync::Arc;

pub struct ReopenProbe;

pub fn reopen_compare(w: &World, r: usize) -> Option<Value> {
    let live_v = w.view(r);
    // (the commit graph compared is the graph of applied blocks)
    let applied_only = |g: Value| -> Value {
        Value::Object(g.as_object().cloned().unwrap_or_default().into_iter().filter(|(_, d)| d.get("status").and_then(|s| s.as_str()) == Some("applied")).collect())
    };
    let live_g = applied_only(block_graph(&w.reps[r].m));
    // storage may hold foreign items the committing replica has melded but not yet refreshed
    // (refresh refuses to run while something is staged): those are outside the statement, so
    // the reopened replica is given the blocks the committing replica has APPLIED, plus every pack. (Blocks it
    // knows but holds back are left out as well: the commit's pack may happen to complete such a foreign block -
    // same staged objects, same pack - which the committer only notices at its next refresh; and after time
    // travel the blocks of the abandoned branch are known but not applied.)
    let known: std::collections::BTreeSet<String> = w.reps[r].m.verif_delta_status().into_iter().filter(|(_, s)| *s == "applied").map(|(k, _)| k).collect();
    let store: RawStore = w.reps[r].store.snapshot().into_iter()
        .filter(|(k, _)| match k.strip_suffix(".delta") { Some(id) => known.contains(id), None => true })
        .collect();
    match fresh_on(&store, "C03 reopen") {
        Ok((m, _)) => {
            let v = view(&m);
            let g = applied_only(block_graph(&m));
            if v != live_v || g != live_g {
                Some(json!({"differs_view": diff_keys(&v, &live_v), "graph_equal": g == live_g, "live_view": live_v, "reopened_view": v, "live_graph": live_g, "reopened_graph": g}))
            } else {
                None
            }
        }
        Err(e) => Some(json!({"reopen_failed": e})),
    }
}

impl Probe for ReopenProbe {
    fn on_transition(&self, sc: &Scenario, hist: &[Op], op: &Op, _pre: &World, out: &OpOut, post: &World, cx: &mut Cx) {
        if let (Op::Commit(r, _), OpOut::Ok(s)) = (op, out) {
            if s == "none" {
                return;
            }
            cx.count("commit_reopen");
            let mut h = hist.to_vec();
            h.push(op.clone());
            cx.outcome(sha_hex(post.view(*r).to_string().as_bytes()));
            if let Some(d) = reopen_compare(post, *r) {
                // after time travel the committer shows only the history below its new head, while a plain
                // reopen also shows the abandoned branch: that difference is legitimate, and the commit
                // is then checked through the head-addressed open below
                cx.violation("C03", "C03:reopen-differs-after-commit", sc, &h, d);
                return;
            }
            // the commit is durable under its own identifier: opening the storage "until" the returned
            // head must succeed and show exactly what the committer shows
            cx.count("commit_reopen_at_returned_head");
            let store = post.reps[*r].store.snapshot();
            crate::guard::set_trace("C03 new_until(returned head)");
            let st = crate::adapter::Store::from_map(store);
            let ids = to_delta_ids(&s.split(',').map(|x| x.to_string()).collect());
            let ad = st.adapter();
            match crate::guard::call("new_until", move || melda::melda::Melda::new_until(ad, &ids)) {
                Ok(Ok(m2)) => {
                    let (v2, v1) = (view(&m2), post.view(*r));
                    if v2 != v1 {
                        cx.violation("C03", "C03:state-at-returned-head-differs", sc, &h, json!({"differs": diff_keys(&v2, &v1), "reopened_at_head": v2, "committer": v1}));
                    }
                }
                Ok(Err(e)) => cx.violation("C03", "C03:returned-head-cannot-be-opened", sc, &h, json!({"returned": s, "error": e.to_string()})),
                Err(p) => cx.violation("C03", "C03:open-at-returned-head-panicked", sc, &h, json!({"returned": s, "panic": p})),
            }
        }
    }
}

const ALPHA: [&str; 8] = ["{", "}", "\"", "\\", "[", ",", "a", "é"];

fn strings(max_len: usize) -> Vec<String> {
    let mut out = vec![String::new()];
    let mut layer = vec![String::new()];
    for _ in 0..max_len {
        let mut next = vec![];
        for s in &layer {
            for a in ALPHA {
                next.push(format!("{}{}", s, a));
            }
        }
        out.extend(next.iter().cloned());
        layer = next;
    }
    out
}

pub fn numbers() -> Vec<Value> {
    let mut v = vec![
        json!(0), json!(-1), json!(1.5), json!(1e300), json!(5e-324), json!(u64::MAX), json!(i64::MIN),
        json!(-0.0), json!(0.1), json!(1e-7), json!(123456789012345678u64), json!(1.0),
        json!(0.1 + 0.2), json!(123456789.123456789), json!(1e23), json!(8.41e21), json!(2.2250738585072014e-308),
        json!(1.7976931348623157e308), json!(std::f64::consts::PI), json!(1.0 / 3.0), json!(2.0 / 3.0),
        json!(4.35), json!(9007199254740993i64), json!(0.000001), json!(1e21), json!(1e-5),
    ];
    // a finite family of "ordinary" fractions with many significant digits: 1e8 + n/997 and n/997
    for n in 1..=400u32 {
        v.push(json!(1e8 + (n as f64) / 997.0));
        v.push(json!((n as f64) / 997.0));
    }
    v
}

fn content_docs(s: &str) -> Vec<(&'static str, Value)> {
    let mut key_doc = serde_json::Map::new();
    key_doc.insert(s.to_string(), json!(1));
    let mut key_el = serde_json::Map::new();
    key_el.insert("_id".to_string(), json!("x"));
    key_el.insert(s.to_string(), json!([s]));
    vec![
        ("root-value", json!({"s": s})),
        ("element-value", json!({"l♭":[{"_id":"x","v":s},{"_id":"y","v":[s,s]}]})),
        ("root-key", Value::Object(key_doc)),
        ("element-key", json!({"l♭":[Value::Object(key_el)]})),
        ("nested", json!({"n":{"a":[s,{"k":s}]}, "o♭":{"_id":"x","q":{"r":s}}})),
        ("flattened-string", json!({"f♭": s, "l♭":[{"_id": format!("i{}", s.len()), "v": 1}]})),
    ]
}

/// one content case: update, commit, reopen; returns a violation detail if the reopened state differs
fn content_case(doc: &Value, second: Option<&Value>) -> Option<Value> {
    let mut docs = vec![doc.clone()];
    if let Some(d2) = second {
        docs.push(d2.clone());
    }
    let m = menu(docs);
    let mut w = World::new(1, m);
    let mut ops = vec![Op::Upd(0, 0), Op::Commit(0, 1)];
    if second.is_some() {
        ops.push(Op::Upd(0, 1));
        ops.push(Op::Commit(0, 0));
    }
    for op in &ops {
        let o = w.apply(op);
        if !o.is_ok() {
            return Some(json!({"op": op.short(), "outcome": o.text()}));
        }
    }
    reopen_compare(&w, 0)
}

pub fn content_sweep(rep: &mut Report, thorough: bool) {
    let strs = strings(if thorough { 4 } else { 3 });
    let mut cases: Vec<(String, Value, Option<Value>)> = vec![];
    for s in &strs {
        for (pos, d) in content_docs(s) {
            cases.push((format!("{}:{:?}", pos, s), d, None));
        }
    }
    for n in numbers() {
        cases.push((format!("number:{}", n), json!({"n": n, "l♭":[{"_id":"x","v":n}], "a":[n,[n]]}), None));
    }
    // objects carrying the "#" member (constants::HASH_FIELD): bare character codes of every width and sign form,
    // codes equal to the digest markers, non-codes, and the member next to other members
    for h in ["41", "d", "e", "r", "0", "ffffffff", "000000042", "0000000000000041", "+41", "100000000", "zz", "4g"] {
        cases.push((format!("hash-member:{}", h), json!({"l♭":[{"_id":"x","#":h}, {"_id":"y","#":h,"v":1}], "o♭":{"#":h}}), None));
    }
    // "#" members changed or removed by a SECOND commit: the second block refers back to the first revision by its
    // textual form, which must name the same revision (upper-case / mixed-case codes, marker-like codes)
    for (h, h2) in [("1F600", "1F601"), ("AB", "ab"), ("ab", "AB"), ("41", "42"), ("0A", "d"), ("d", "0A"), ("e", "E"), ("aB", "Ab")] {
        cases.push((
            format!("hash-member-updated:{}->{}", h, h2),
            json!({"l♭":[{"_id":"x","#":h}, {"_id":"y","#":h}], "o♭":{"#":h}}),
            Some(json!({"l♭":[{"_id":"x","#":h2}], "o♭":{"#":h2}})),
        ));
    }
    // two commits: second pack/object set differs from the first
    for s in strs.iter().filter(|s| s.chars().count() <= 2) {
        cases.push((format!("two-commits:{:?}", s), json!({"s": s, "l♭":[{"_id":"x","v":s}]}), Some(json!({"s": format!("{}{}", s, s), "l♭":[{"_id":"x","v":"z"},{"_id":"y","v":s}]}))));
    }
    let total = cases.len();
    let results: Vec<(String, Value, Option<Value>)> = cases
        .into_par_iter()
        .map(|(name, d, d2)| {
            let r = crate::guard::call("content_case", || content_case(&d, d2.as_ref()));
            let r = match r {
                Ok(x) => x,
                Err(p) => Some(json!({"panic": p})),
            };
            (name, d, r)
        })
        .collect();
    let mut bad = 0;
    for (name, d, r) in &results {
        if let Some(detail) = r {
            bad += 1;
            if bad <= 3 {
                let mut det = detail.clone();
                det["input"] = d.clone();
                det["case"] = json!(name);
                rep.violations.push(Violation {
                    property: "C03".into(),
                    signature: "C03:reopen-differs-content".into(),
                    scenario: "content-sweep".into(),
                    history: vec![],
                    detail: det,
                });
            }
        }
    }
    rep.add_u64("evaluations", total as u64);
    rep.set("content_sweep", json!({"cases": total, "strings": strs.len(), "alphabet": ALPHA, "max_len": if thorough {4} else {3}, "positions": ["root-value","element-value","root-key","element-key","nested","flattened-string","number","two-commits"], "failing": bad}));
    rep.push_sample(json!({"content_case": results[results.len() / 2].0, "doc": results[results.len() / 2].1}));
}

pub fn scenarios(thorough: bool) -> Vec<Scenario> {
    let mut v = vec![];
    v.push(single_scenario("single-kinds", kind_docs(), if thorough { 4 } else { 3 },
        &[Op::Commit(0, 2), Op::Snapshot(0), Op::Unstage(0)]));
    v.push(single_scenario("single-arrays", arr_docs(), if thorough { 4 } else { 3 }, &[Op::Snapshot(0)]));
    // commits made after time travel, and beside foreign blocks that are known but not applied
    {
        let a = arr_docs();
        let mut sc = single_scenario("single-travel", vec![a[0].clone(), a[2].clone(), a[3].clone(), a[9].clone()], if thorough { 6 } else { 5 },
            &[Op::Travel(0, 0), Op::Travel(0, 1), Op::Reload(0)]);
        sc.key_opts.heads = true;
        sc.prologue = vec![Op::Upd(0, 0), Op::Commit(0, 0), Op::Upd(0, 1), Op::Commit(0, 1), Op::Upd(0, 2), Op::Commit(0, 0)];
        sc.max_depth = if thorough { 5 } else { 4 };
        v.push(sc);
    }
    v.push(pair_conflict_scenario("pair-conflict", 2, 3, if thorough { &[1, 8, 4] } else { &[1, 8] }, if thorough { 5 } else { 4 },
        &[Op::Resolve(1, 0, 0), Op::Resolve(1, 0, 1), Op::Snapshot(1), Op::Commit(1, 2), Op::ObjPut(1, 1)]));
    v.push(many_commits_scenario("pair-many-commits", if thorough { 4 } else { 3 }, &[]));
    // chains of several staged revisions of the same objects in the very first commit; discard and redo
    let a = arr_docs();
    v.push(single_scenario("single-first-commit", vec![a[0].clone(), a[3].clone(), a[4].clone(), a[8].clone()], if thorough { 6 } else { 5 },
        &[Op::Unstage(0), Op::ObjPut(0, 1), Op::ObjPut(0, 2), Op::ObjDel(0)]));
    // the same explorations under a reversed hash-iteration order (order of the change records in a
    // block and of the objects in a pack)
    let mut rev: Vec<Scenario> = v.iter().cloned().map(|mut s| {
        s.name = format!("{}[hash-order=reverse]", s.name);
        s.order = Some(melda::verif_hooks::order::Mode::Reverse);
        if !thorough && s.max_depth > 3 { s.max_depth -= 1; }
        s
    }).collect();
    v.append(&mut rev);
    // depth 2 in both tiers: every pair of operations from every prepared state
    v.extend(cross_scenarios_depth(2));
    v.extend(combo_scenarios(thorough));
    v
}

pub fn run(thorough: bool) {
    let mut rep = Report::new("C03", if thorough { "thorough" } else { "quick" }, "model_checking");
    run_h(&mut rep, RunCfg {
        scenarios: scenarios(thorough),
        probes: vec![Arc::new(ReopenProbe)],
        pools: vec![1],
        time_budget_s: if thorough { 2400 } else { 40 },
        max_states: if thorough { 300_000 } else { 20_000 },
        stop_on_violation: true,
    });
    content_sweep(&mut rep, thorough);
    rep.set("rule", json!("(1) at EVERY successful commit transition of the explored histories (first commits, chains of several staged revisions, deletions, resolutions, snapshots, pack-less commits) a fresh replica is opened on a byte copy of the storage and its view and block graph (parents, packs, info, statuses) must equal the committing replica's; (2) content sweep: every string over the alphabet { } \" \\ [ , a é up to the stated length, in 6 positions (root value, element value, root key, element key, nested containers, flattened string), a number menu, and two-commit cases: update, commit, reopen, compare"));
    finalize(&mut rep);
    rep.finish();
}
