//! C11 — storage is content-addressed, append-only and byte-identical everywhere.
use super::common::*;
use crate::adapter::WriteOutcome;
use crate::explore::*;
use crate::menu::*;
use crate::refmodel;
use crate::report::Report;
use crate::world::*;
use serde_json::{json, Value};
use std::sync::Arc;

pub struct StorageMonitor;

/// naming rule of one stored item; returns an error description if violated
pub fn check_item(k: &str, v: &[u8]) -> Option<String> {
    if let Some(name) = k.strip_suffix(".pack") {
        if sha_hex(v) != name {
            return Some(format!("pack {} is not named by the sha256 of its bytes", k));
        }
        None
    } else if let Some(name) = k.strip_suffix(".delta") {
        let Some((idx, digest)) = refmodel::parse_block_name(name) else {
            return Some(format!("block name {} is not <index>-<digest>", k));
        };
        if sha_hex(v) != digest {
            return Some(format!("block {} is not named by the sha256 of its bytes", k));
        }
        let Ok(j) = serde_json::from_slice::<Value>(v) else {
            return Some(format!("block {} is not JSON", k));
        };
        let mut max = 0u64;
        if let Some(ps) = j.get("p").and_then(|p| p.as_array()) {
            for p in ps {
                match p.as_str().and_then(refmodel::parse_block_name) {
                    Some((i, _)) => max = max.max(i),
                    None => return Some(format!("block {} has a malformed parent", k)),
                }
            }
        }
        if idx != max + 1 {
            return Some(format!("block {} has index {} but highest parent index {}", k, idx, max));
        }
        None
    } else {
        Some(format!("unexpected item {}", k))
    }
}

pub fn monitor(sc: &Scenario, hist: &[Op], pre: Option<&World>, post: &World, cx: &mut Cx) {
    let n = post.reps.len();
    let stores: Vec<RawStore> = (0..n).map(|r| post.reps[r].store.snapshot()).collect();
    for r in 0..n {
        for (k, v) in &stores[r] {
            cx.count("item_name_checks");
            if let Some(e) = check_item(k, v) {
                cx.violation("C11", "C11:item-name-rule", sc, hist, json!({"replica": r, "error": e}));
                return;
            }
            for s in (r + 1)..n {
                if let Some(v2) = stores[s].get(k) {
                    cx.count("cross_replica_byte_checks");
                    if v2 != v {
                        cx.violation("C11", "C11:item-bytes-differ-between-replicas", sc, hist, json!({"key": k, "replicas": [r, s]}));
                        return;
                    }
                }
            }
        }
        if let Some(pre) = pre {
            if r < pre.reps.len() {
                cx.count("append_only_checks");
                let before = pre.reps[r].store.snapshot();
                for (k, v) in &before {
                    if stores[r].get(k) != Some(v) {
                        cx.violation("C11", "C11:item-modified-or-removed", sc, hist, json!({"replica": r, "key": k}));
                        return;
                    }
                }
            }
        }
        let log = post.reps[r].store.0.lock().unwrap().log.clone();
        for w in &log {
            if w.outcome == WriteOutcome::DiffIgnored {
                cx.violation("C11", "C11:write-conflict-same-key-different-bytes", sc, hist, json!({"replica": r, "key": w.key}));
                return;
            }
        }
    }
}

impl Probe for StorageMonitor {
    fn needs_pre(&self) -> bool {
        true
    }
    fn on_transition(&self, sc: &Scenario, hist: &[Op], op: &Op, pre: &World, _out: &OpOut, post: &World, cx: &mut Cx) {
        let mut h = hist.to_vec();
        h.push(op.clone());
        monitor(sc, &h, Some(pre), post, cx);
        // whatever appeared in the target's storage during a meld is in the list the meld REPORTS
        if let (Op::Meld(r, _) | Op::Sync(r, _), OpOut::Ok(text)) = (op, _out) {
            let listed = text.strip_prefix("melded[").and_then(|t| t.strip_suffix(']')).unwrap_or(text);
            let reported: std::collections::BTreeSet<String> = listed.split(',').filter(|x| !x.is_empty()).map(|x| x.to_string()).collect();
            let (before, after) = (pre.reps[*r].store.snapshot(), post.reps[*r].store.snapshot());
            let appeared: std::collections::BTreeSet<String> = after.keys().filter(|k| !before.contains_key(*k)).cloned().collect();
            cx.count("meld_report_checks");
            // (items melded earlier but not refreshed yet are offered - and reported - again: only the inclusion holds)
            if !appeared.is_subset(&reported) {
                cx.violation("C11", "C11:meld-report-differs-from-what-was-copied", sc, &h, json!({"replica": r, "reported": reported, "appeared_in_storage": appeared}));
            }
        }
        let d: Vec<String> = post.reps.iter().map(|r| store_digest(&r.store.snapshot())).collect();
        cx.outcome(d.join("|"));
    }
}

pub fn meta_infos() -> Vec<Value> {
    vec![
        json!({"n": 1.0}), json!({"n": 0.1}), json!({"n": 1e-7}), json!({"n": 1e300}), json!({"n": 5e-324}),
        json!({"n": -0.0}), json!({"n": u64::MAX}), json!({"n": i64::MIN}), json!({"s": "\n"}), json!({"s": "\u{0}"}),
        json!({"s": "\""}), json!({"s": "\\"}), json!({"s": "é♭√"}), json!({}), json!({"a": [1, [2.5, {"k": null}], true]}),
        json!({"z": 1, "a": 2, "m": {"z": 1, "a": 2}}), json!({"s": "\u{7f}\u{80}\u{2028}"}), json!({"n": 1.7976931348623157e308}),
        json!({"n": 123456789.123456789}), json!({"n": 1e21}), json!({"n": 1e-5}),
    ]
}

/// commit with metadata i (and then j), meld into a second replica and back; monitor after every step
pub fn metadata_sweep(rep: &mut Report, thorough: bool) {
    let infos = meta_infos();
    let docs = vec![json!({"l♭":[x()]}), json!({"l♭":[x(), y()]})];
    let mut cases: Vec<Vec<usize>> = (0..infos.len()).map(|i| vec![i]).collect();
    if thorough {
        for i in 0..infos.len() {
            for j in 0..infos.len() {
                cases.push(vec![i, j]);
            }
        }
    } else {
        for i in 0..infos.len() {
            cases.push(vec![i, (i + 7) % infos.len()]);
        }
    }
    let menu = Arc::new(Menu { docs, infos: infos.iter().cloned().map(Some).collect() });
    let sc = Scenario { name: "metadata-sweep".into(), nrep: 2, menu: menu.clone(), prologue: vec![], alphabet: vec![], key_opts: KeyOpts::default(), max_depth: 0, track: false, order: None };
    let mut cx = Cx::default();
    let total = cases.len();
    for c in &cases {
        let mut hist = vec![];
        let mut w = World::new(2, menu.clone());
        for (n, &i) in c.iter().enumerate() {
            for op in [Op::Upd(0, n), Op::Commit(0, i)] {
                let o = w.apply(&op);
                hist.push(op.clone());
                if !o.is_ok() {
                    cx.violation("C11", "C11:metadata-commit-failed", &sc, &hist, json!({"outcome": o.text()}));
                }
            }
        }
        for op in [Op::Sync(1, 0), Op::Upd(1, c.len() % 2), Op::Commit(1, c[0]), Op::Sync(0, 1)] {
            w.apply(&op);
            hist.push(op);
            monitor(&sc, &hist, None, &w, &mut cx);
        }
        // both replicas must have applied every block (a re-serialised block with different bytes would be dropped)
        for r in 0..2 {
            let st = w.reps[r].m.verif_delta_status();
            if st.len() != c.len() + 1 || st.values().any(|s| *s != "applied") {
                cx.violation("C11", "C11:melded-block-not-usable", &sc, &hist, json!({"replica": r, "statuses": st, "infos": c.iter().map(|&i| infos[i].clone()).collect::<Vec<_>>()}));
            }
            // metadata reads back unchanged
            for (id, _) in st {
                let raw = w.reps[r].store.get(&format!("{}.delta", id)).unwrap();
                let j: Value = serde_json::from_slice(&raw).unwrap();
                let Some(d) = melda::melda::DeltaId::from(&id).ok().and_then(|did| w.reps[r].m.get_delta(&did).ok().flatten()) else {
                    cx.violation("C11", "C11:metadata-differs-from-raw", &sc, &hist, json!({"replica": r, "block": id, "error": "the block cannot be fetched by its reported identifier"}));
                    continue;
                };
                if j.get("i").cloned() != d.info.map(Value::Object) {
                    cx.violation("C11", "C11:metadata-differs-from-raw", &sc, &hist, json!({"replica": r, "block": id}));
                }
            }
        }
    }
    rep.add_u64("evaluations", total as u64);
    rep.set("metadata_sweep", json!({"cases": total, "infos": infos, "failing": cx.violations.len()}));
    rep.violations.extend(cx.violations);
}

/// Melding from a source whose stored items were damaged in place after the source had loaded them: whatever
/// the target writes must still be named by the sha256 of its bytes (the damaged item is skipped, not copied).
#[derive(Default)]
pub struct DamagedSourceProbe {
    /// (block, wrong index) pairs already tried (the same block occurs in many states)
    pub seen_rename: std::sync::Mutex<std::collections::HashSet<String>>,
}

pub fn damage_variants(v: &[u8]) -> Vec<(&'static str, Vec<u8>)> {
    let mut out = vec![("truncated-half", v[..v.len() / 2].to_vec()), ("empty", vec![])];
    if !v.is_empty() {
        let mut f = v.to_vec();
        let i = f.len() / 2;
        f[i] ^= 0x01;
        out.push(("one-bit-flipped", f));
        let mut g = v.to_vec();
        g.pop();
        out.push(("last-byte-missing", g));
    }
    let mut e = v.to_vec();
    e.extend_from_slice(b" ");
    out.push(("one-byte-appended", e));
    out
}

impl Probe for DamagedSourceProbe {
    fn on_state(&self, sc: &Scenario, hist: &[Op], cx: &mut Cx) {
        let w0 = sc.build(hist);
        if w0.any_dead() {
            return;
        }
        let n = sc.nrep;
        let stores: Vec<RawStore> = (0..n).map(|r| w0.reps[r].store.snapshot()).collect();
        for s in 0..n {
            for r in 0..n {
                if r == s {
                    continue;
                }
                let missing: Vec<&String> = stores[s].keys().filter(|k| !stores[r].contains_key(*k)).collect();
                for k in missing {
                    for (what, bytes) in damage_variants(&stores[s][k]) {
                        let mut w = sc.build(hist);
                        w.reps[s].store.put_raw(k, bytes);
                        let o = w.apply(&Op::Meld(r, s));
                        cx.count("melds_from_a_damaged_source");
                        let after = w.reps[r].store.snapshot();
                        for (k2, v2) in &after {
                            if let Some(e) = check_item(k2, v2) {
                                let mut h = hist.to_vec();
                                h.push(Op::Meld(r, s));
                                cx.violation("C11", &format!("C11:meld-copied-a-damaged-item:{}", if k.ends_with(".pack") { "pack" } else { "block" }), sc, &h,
                                    json!({"source": s, "target": r, "damaged_in_source_before_the_meld": k, "damage": what, "error": e, "meld": o.text()}));
                                return;
                            }
                        }
                        for (k2, v2) in &stores[r] {
                            if after.get(k2) != Some(v2) {
                                cx.violation("C11", "C11:item-modified-or-removed", sc, hist, json!({"replica": r, "key": k2, "during": "meld from a damaged source"}));
                                return;
                            }
                        }
                        cx.outcome(format!("{}:{}", what, o.text()));
                    }
                }
            }
        }
        // a source opened on storage where one block (valid bytes, right digest) sits under a WRONG index - a foreign
        // or renamed file: whatever that source accepts, a meld from it into an empty replica writes only well-named items
        for s in 0..n {
            let blocks: Vec<String> = stores[s].keys().filter(|k| k.ends_with(".delta")).cloned().collect();
            for k in blocks {
                let name = k.strip_suffix(".delta").unwrap();
                let Some((idx, digest)) = refmodel::parse_block_name(name) else { continue };
                for wrong in [idx + 5, idx.saturating_sub(1).max(1)] {
                    if wrong == idx {
                        continue;
                    }
                    if !self.seen_rename.lock().unwrap().insert(format!("{}>{}", k, wrong)) {
                        continue;
                    }
                    let mut st = stores[s].clone();
                    let bytes = st.remove(&k).unwrap();
                    st.insert(format!("{}-{}.delta", wrong, digest), bytes);
                    let Ok((src, _)) = fresh_on(&st, "C11 misnamed block source") else { continue };
                    let empty = RawStore::new();
                    let Ok((dst, dst_store)) = fresh_on(&empty, "C11 misnamed block target") else { continue };
                    let o = crate::guard::call("meld", || dst.meld(&src).map_err(|e| e.to_string()));
                    cx.count("melds_from_a_source_with_a_misnamed_block");
                    for (k2, v2) in &dst_store.snapshot() {
                        if let Some(e) = check_item(k2, v2) {
                            cx.violation("C11", "C11:meld-copied-a-misnamed-block", sc, hist,
                                json!({"source_replica": s, "block": k, "renamed_to_index": wrong, "error": e, "meld": format!("{:?}", o)}));
                            return;
                        }
                    }
                }
            }
        }
    }
}

pub fn damaged_source_scenarios(thorough: bool) -> Vec<Scenario> {
    let mut v = vec![];
    v.push(pair_scenario("pair-arrays", &[2, 3, 9], if thorough { 5 } else { 4 }, &[Op::Commit(0, 2), Op::Meld(0, 1), Op::Meld(1, 0)]));
    v.push(pair_conflict_scenario("pair-conflict", 2, 3, &[1, 8], if thorough { 4 } else { 2 }, &[Op::Resolve(1, 0, 0), Op::Commit(1, 1), Op::Meld(0, 1)]));
    v.extend(cross_scenarios(false));
    v
}

pub fn scenarios(thorough: bool) -> Vec<Scenario> {
    let mut v = vec![];
    v.push(pair_scenario("pair-arrays", if thorough { &[1, 2, 3, 6, 9] } else { &[2, 3, 9] }, if thorough { 7 } else { 6 },
        &[Op::Resolve(0, 0, 0), Op::Resolve(1, 0, 1), Op::Commit(0, 2), Op::Meld(0, 1), Op::Meld(1, 0), Op::Snapshot(0)]));
    v.push(pair_conflict_scenario("pair-conflict", 2, 3, if thorough { &[1, 8, 4] } else { &[1, 8] }, if thorough { 5 } else { 4 },
        &[Op::Resolve(1, 0, 0), Op::Resolve(1, 0, 1), Op::Commit(1, 1), Op::Meld(0, 1)]));
    v.push(trio_scenario("trio", if thorough { 7 } else { 6 }));
    // commits made after time travel (later blocks stay known but unapplied) and beside melded, unrefreshed blocks
    {
        let a = arr_docs();
        let mut sc = single_scenario("single-travel", vec![a[0].clone(), a[2].clone(), a[3].clone(), a[9].clone()], if thorough { 5 } else { 4 },
            &[Op::Travel(0, 0), Op::Travel(0, 1), Op::Reload(0)]);
        sc.key_opts.heads = true;
        sc.prologue = vec![Op::Upd(0, 0), Op::Commit(0, 0), Op::Upd(0, 1), Op::Commit(0, 1), Op::Upd(0, 2), Op::Commit(0, 0)];
        v.push(sc);
    }
    v.push(uneven_heads_scenario("pair-heads-9-and-10", if thorough { 4 } else { 3 }, &[]));
    v.extend(cross_scenarios(thorough));
    v.extend(combo_scenarios(thorough));
    v
}

pub fn run(thorough: bool) {
    let mut rep = Report::new("C11", if thorough { "thorough" } else { "quick" }, "model_checking");
    run_h(&mut rep, RunCfg {
        scenarios: scenarios(thorough),
        probes: vec![Arc::new(StorageMonitor)],
        pools: vec![1],
        time_budget_s: if thorough { 2400 } else { 40 },
        max_states: if thorough { 300_000 } else { 40_000 },
        stop_on_violation: true,
    });
    run_h(&mut rep, RunCfg {
        scenarios: damaged_source_scenarios(thorough),
        probes: vec![Arc::new(DamagedSourceProbe::default())],
        pools: vec![1],
        time_budget_s: if thorough { 1200 } else { 30 },
        max_states: if thorough { 100_000 } else { 20_000 },
        stop_on_violation: true,
    });
    metadata_sweep(&mut rep, thorough);
    rep.set("rule", json!("monitor evaluated on every replica's storage after EVERY transition of every explored history: every key is <sha256(bytes)>.pack or <i>-<sha256(bytes)>.delta with i = 1 + highest parent index (parsed from the raw bytes), storage before the transition is a subset of storage after with identical bytes, equal keys on different replicas have equal bytes, and the instrumented adapter never saw a write to an existing key with different bytes; plus a commit-metadata sweep (numbers, escapes, nesting; singly and in pairs) melded to a second replica and back; plus, in every state of a second exploration, for EVERY ordered replica pair, EVERY item the source holds and the target lacks and EVERY damage variant (truncated, emptied, one bit flipped, last byte missing, one byte appended) applied in place to the live source: meld, then every item of the target is still named by its bytes and nothing it held changed. distinct_nontrivial = distinct storage contents observed"));
    finalize(&mut rep);
    rep.finish();
}
