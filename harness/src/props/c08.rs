//! C08 — every operation returns in every reachable state.
use crate::explore::*;
use crate::menu::*;
use crate::report::Report;
use crate::world::*;
use serde_json::{json, Value};
use std::sync::Arc;
use std::time::Duration;

/// classifies a failed call into a stable signature: op kind + panic message (no line numbers)
pub fn sig_of(op: &str, out: &OpOut) -> String {
    let kind = op.split('(').next().unwrap_or(op);
    match out {
        OpOut::Panic(m) => {
            let msg = m.split(" @ ").next().unwrap_or(m);
            let msg: String = msg.chars().take(60).collect();
            format!("C08:panic:{}:{}", kind, msg)
        }
        OpOut::Hang(_) => format!("C08:hang:{}", kind),
        _ => format!("C08:?:{}", kind),
    }
}

/// Calls with unusual but well-formed arguments (identifiers and revisions that exist but are "the wrong ones",
/// or that are unknown), each on a rebuilt copy of the state when it mutates: they may fail, they must return.
fn odd_calls(sc: &Scenario, hist: &[Op], cx: &mut Cx) {
    use crate::guard::call;
    let w0 = sc.build(hist);
    if w0.any_dead() {
        return;
    }
    let report = |cx: &mut Cx, what: &str, r: Result<(), String>| {
        cx.count("odd_argument_calls");
        if let Err(p) = r {
            let out = if p.starts_with(crate::guard::HANG_PREFIX) { OpOut::Hang(p.clone()) } else { OpOut::Panic(p.clone()) };
            let kind = what.split('(').next().unwrap_or(what);
            cx.violation("C08", &sig_of(&format!("odd-{}", kind), &out), sc, hist, json!({"call": what, "outcome": out.text()}));
        }
    };
    for r in 0..sc.nrep {
        w0.focus();
        let m = &w0.reps[r].m;
        let objs: Vec<String> = m.get_all_objects().into_iter().collect();
        let mut revs: Vec<(String, Vec<String>)> = vec![];
        for u in &objs {
            revs.push((u.clone(), m.verif_dump_tree(u).unwrap_or_default().into_iter().map(|(r, _, _)| r).collect()));
        }
        // read-only queries
        for (u, rs) in &revs {
            // (syntactically invalid revision strings are not well-formed input and are left out)
            for rv in rs.iter().chain(["1-ffff".to_string(), "3-d_0000000".to_string(), "2-r_1234567".to_string()].iter()) {
                report(cx, &format!("get_value({}, {})", u, rv), call("get_value", || { let _ = m.get_value(u, Some(rv)); }));
                report(cx, &format!("get_parent_revision({}, {})", u, rv), call("get_parent_revision", || { let _ = m.get_parent_revision(u, rv); }));
            }
            report(cx, &format!("read(Some({}))", u), call("read(root)", || { let _ = m.read(Some(u)); }));
        }
        for u in ["nope", "", "^nope@l\u{266D}", "\u{221A}x"] {
            report(cx, &format!("get_value({}, None)", u), call("get_value", || { let _ = m.get_value(u, None); }));
            report(cx, &format!("get_winner({})", u), call("get_winner", || { let _ = m.get_winner(u); }));
            report(cx, &format!("get_conflicting({})", u), call("get_conflicting", || { let _ = m.get_conflicting(u); }));
            report(cx, &format!("read(Some({}))", u), call("read(root)", || { let _ = m.read(Some(u)); }));
        }
        // mutating calls, each on a rebuilt copy
        let mut jobs: Vec<(String, Box<dyn Fn(&mut melda::melda::Melda) + Send + Sync>)> = vec![];
        for (i, (u, rs)) in revs.iter().enumerate() {
            // the winner of an object that is not in conflict, a non-leaf revision, a revision of ANOTHER object, garbage
            let mut cands: Vec<String> = vec![];
            if let Some(first) = rs.first() { cands.push(first.clone()); }
            if let Some(last) = rs.last() { cands.push(last.clone()); }
            if let Ok(wn) = m.get_winner(u) { cands.push(wn); }
            if let Some((_, other)) = revs.get((i + 1) % revs.len()) { if let Some(o) = other.last() { cands.push(o.clone()); } }
            cands.push("7-ffff_0000000".into());
            cands.sort();
            cands.dedup();
            for c in cands {
                let (u2, c2) = (u.clone(), c.clone());
                jobs.push((format!("resolve_as({}, {})", u, c), Box::new(move |mm| { let _ = mm.resolve_as(&u2, &c2); let _ = mm.read(None); let _ = mm.commit(None); let _ = mm.read(None); })));
            }
            let u3 = u.clone();
            jobs.push((format!("delete_object({}) twice + commit", u), Box::new(move |mm| { let _ = mm.delete_object(&u3); let _ = mm.delete_object(&u3); let _ = mm.read(None); let _ = mm.commit(None); let _ = mm.read(None); })));
            let u4 = u.clone();
            jobs.push((format!("remove_object({}) + read + commit", u), Box::new(move |mm| { let _ = mm.remove_object(&u4); let _ = mm.read(None); let _ = mm.commit(None); let _ = mm.read(None); })));
            // (writing arbitrary content into an array descriptor through the object API is not well-formed input)
            if u.starts_with('^') {
                continue;
            }
            let u5 = u.clone();
            jobs.push((format!("create_object({}, {{}}) + update_object + read", u), Box::new(move |mm| {
                let _ = mm.create_object(&u5, serde_json::Map::new());
                let _ = mm.update_object(&u5, json!({"odd": 1}).as_object().unwrap().clone());
                let _ = mm.read(None);
                let _ = mm.commit(None);
            })));
        }
        jobs.push(("resolve_as(nope, 1-ffff)".into(), Box::new(|mm| { let _ = mm.resolve_as("nope", "1-ffff"); })));
        jobs.push(("reload_until({})".into(), Box::new(|mm| { let _ = mm.reload_until(&std::collections::BTreeSet::new()); let _ = mm.read(None); let _ = mm.reload(); let _ = mm.read(None); })));
        jobs.push(("replay_stage(None)".into(), Box::new(|mm| { let _ = mm.replay_stage(&None); let _ = mm.read(None); })));
        jobs.push(("replay_stage(own stage) twice".into(), Box::new(|mm| { let s = mm.stage().ok().flatten(); let _ = mm.replay_stage(&s); let _ = mm.replay_stage(&s); let _ = mm.read(None); let _ = mm.commit(None); })));
        jobs.push(("refresh twice, reload twice".into(), Box::new(|mm| { let _ = mm.refresh(); let _ = mm.refresh(); let _ = mm.reload(); let _ = mm.reload(); let _ = mm.read(None); })));
        jobs.push(("unstage twice".into(), Box::new(|mm| { let _ = mm.unstage(); let _ = mm.unstage(); let _ = mm.read(None); })));
        jobs.push(("snapshot, unstage, snapshot, commit".into(), Box::new(|mm| { let _ = mm.stage_full_snapshot(); let _ = mm.unstage(); let _ = mm.stage_full_snapshot(); let _ = mm.commit(None); let _ = mm.read(None); })));
        jobs.push(("meld with a second replica on the SAME storage".into(), Box::new(|mm| {
            if let Ok(twin) = melda::melda::Melda::new(mm.get_adapter()) { let _ = mm.meld(&twin); let _ = twin.meld(mm); let _ = mm.refresh(); let _ = mm.read(None); }
        })));
        for (what, job) in jobs {
            let mut w = sc.build(hist);
            w.focus();
            let mm = &mut w.reps[r].m;
            report(cx, &what, call(&what, || job(mm)));
        }
    }
}

/// Every operation of the full alphabet is attempted once in every state.
pub struct AllOpsProbe {
    pub full: Vec<Op>,
    /// also try the odd-argument calls (in states at most this many operations beyond the prologue)
    pub odd_within: Option<usize>,
}

impl Probe for AllOpsProbe {
    fn on_state(&self, sc: &Scenario, hist: &[Op], cx: &mut Cx) {
        // accessors
        let w = sc.build(hist);
        if w.any_dead() {
            return;
        }
        for r in 0..sc.nrep {
            let v = w.view(r);
            cx.count("views");
            let s = v.to_string();
            if let Some(p) = v["read"].get("panic") {
                let m = p.as_str().unwrap_or("");
                let out = if m.starts_with(crate::guard::HANG_PREFIX) {
                    OpOut::Hang(m.to_string())
                } else {
                    OpOut::Panic(m.to_string())
                };
                cx.violation("C08", &sig_of("read", &out), sc, hist, json!({"call": format!("read on replica {}", r), "outcome": out.text()}));
            } else if s.contains("panic:") {
                cx.violation("C08", "C08:panic:accessor", sc, hist, json!({"call": format!("accessor on replica {}", r), "view": v}));
            }
            cx.outcome(crate::world::sha_hex(s.as_bytes()));
        }
        drop(w);
        if let Some(k) = self.odd_within {
            if hist.len() <= sc.prologue.len() + k {
                odd_calls(sc, hist, cx);
            }
        }
        for op in &self.full {
            let mut w = sc.build(hist);
            let o = w.apply(op);
            match &o {
                OpOut::NotEnabled(_) => continue,
                OpOut::Panic(_) | OpOut::Hang(_) => {
                    cx.count("probe_ops");
                    cx.violation("C08", &sig_of(&op.short(), &o), sc, hist, json!({"call": op.short(), "outcome": o.text()}));
                }
                _ => {
                    cx.count("probe_ops");
                    // the state after the op must be readable too
                    let v = w.view(op.replica());
                    if let Some(p) = v["read"].get("panic") {
                        let mut h = hist.to_vec();
                        h.push(op.clone());
                        let m = p.as_str().unwrap_or("");
                        let out = if m.starts_with(crate::guard::HANG_PREFIX) { OpOut::Hang(m.to_string()) } else { OpOut::Panic(m.to_string()) };
                        cx.violation("C08", &sig_of("read", &out), sc, &h, json!({"call": "read after op", "outcome": out.text()}));
                    }
                }
            }
        }
    }
    fn on_transition(&self, sc: &Scenario, hist: &[Op], op: &Op, _pre: &World, out: &OpOut, _post: &World, cx: &mut Cx) {
        if matches!(out, OpOut::Panic(_) | OpOut::Hang(_)) {
            cx.violation("C08", &sig_of(&op.short(), out), sc, hist, json!({"call": op.short(), "outcome": out.text()}));
        }
    }
}

pub fn full_alphabet(nrep: usize, ndocs: usize) -> Vec<Op> {
    let mut v = vec![];
    for r in 0..nrep {
        for d in 0..ndocs {
            v.push(Op::Upd(r, d));
        }
        v.push(Op::Commit(r, 0));
        v.push(Op::Commit(r, 1));
        v.push(Op::Refresh(r));
        v.push(Op::Reload(r));
        v.push(Op::Unstage(r));
        v.push(Op::Snapshot(r));
        v.push(Op::StageRt(r));
        v.push(Op::Reopen(r));
        v.push(Op::ObjPut(r, 1));
        v.push(Op::ObjPut(r, 2));
        v.push(Op::ObjDel(r));
        v.push(Op::ObjRemove(r, 0));
        v.push(Op::ObjRemove(r, 1));
        v.push(Op::Read(r));
        v.push(Op::StageSave(r));
        v.push(Op::StageReplay(r));
        for k in 0..4 {
            v.push(Op::Travel(r, k));
        }
        for j in 0..3 {
            for k in 0..3 {
                v.push(Op::Resolve(r, j, k));
            }
        }
        for s in 0..nrep {
            if s != r {
                v.push(Op::Meld(r, s));
                v.push(Op::Sync(r, s));
            }
        }
    }
    v
}

pub fn scenarios(thorough: bool) -> Vec<Scenario> {
    let d = if thorough { 6 } else { 4 };
    let mut v = vec![];
    // array conflicts between two replicas, with resolution and unstage
    v.push(pair_scenario(
        "pair-arrays",
        if thorough { &[1, 2, 3, 6, 8] } else { &[2, 3, 6] },
        d,
        &[Op::Resolve(0, 0, 0), Op::Resolve(1, 0, 1), Op::Unstage(0), Op::Snapshot(1)],
    ));
    // start from a state in which replica 1 holds an array conflict (append z || remove x)
    v.push(pair_conflict_scenario(
        "pair-conflict",
        2,
        3,
        if thorough { &[1, 6, 8, 4] } else { &[1, 8] },
        if thorough { 5 } else { 3 },
        &[Op::Resolve(1, 0, 0), Op::Resolve(1, 0, 1), Op::Resolve(0, 0, 0), Op::Unstage(1), Op::ObjPut(1, 1)],
    ));
    v.push(long_chain_scenario("pair-long-chain", if thorough { 3 } else { 2 }, &[]));
    // stage exports replayed elsewhere in time: save, discard, travel, replay, keep working
    {
        let a = arr_docs();
        let mut sc = single_scenario("single-stage-travel", vec![a[0].clone(), a[2].clone(), a[3].clone()], if thorough { 6 } else { 5 },
            &[Op::StageSave(0), Op::StageReplay(0), Op::Unstage(0), Op::Travel(0, 0), Op::Travel(0, 1), Op::Reload(0)]);
        sc.key_opts.heads = true;
        sc.prologue = vec![Op::Upd(0, 0), Op::Commit(0, 0), Op::Upd(0, 1), Op::Commit(0, 1)];
        v.push(sc);
    }
    // a flattened key disappearing / reappearing on one side while the other edits the root
    v.push(pair_scenario(
        "pair-rootkinds",
        if thorough { &[8, 9, 12, 13, 14, 7] } else { &[8, 9, 12, 13, 14] },
        if thorough { 5 } else { 4 },
        &[Op::Resolve(0, 0, 0), Op::Resolve(1, 0, 1), Op::Unstage(0)],
    ));
    // kinds of flattened values on a single replica
    v.push(single_scenario(
        "single-kinds",
        {
            let mut d = kind_docs();
            d.push(json!({}));
            d.push(json!({"l♭":[]}));
            d
        },
        if thorough { 3 } else { 2 },
        &[Op::Unstage(0), Op::Snapshot(0), Op::Reopen(0)],
    ));
    v.push(trio_scenario("trio", if thorough { 7 } else { 5 }));
    v.extend(cross_scenarios(thorough));
    v
}

/// Reference cycles: concurrent moves of objects below each other (each submitted document is a well-formed tree with
/// unique identifiers) leave, after the exchange, objects that refer to each other in a cycle although nothing is in
/// conflict. Every read operation must still return. A stack overflow aborts the whole process, so the histories are
/// run in a CHILD process (this executable with the pseudo-property "C08-cycles-child"); the parent reports an
/// abnormal termination as "the operation aborted the process".
fn cycle_histories() -> Vec<(&'static str, usize, Vec<Value>, Vec<Op>, Vec<&'static str>)> {
    let two = (
        "two-objects-moved-below-each-other",
        2usize,
        vec![
            json!({"a♭": {"_id": "A", "n": 1, "child♭": null}, "b♭": {"_id": "B", "n": 2, "child♭": null}}),
            json!({"a♭": {"_id": "A", "n": 1, "child♭": {"_id": "B", "n": 2, "child♭": null}}, "b♭": null}),
            json!({"a♭": null, "b♭": {"_id": "B", "n": 2, "child♭": {"_id": "A", "n": 1, "child♭": null}}}),
        ],
        vec![Op::Upd(0, 0), Op::Commit(0, 0), Op::Sync(1, 0), Op::Upd(0, 1), Op::Commit(0, 0), Op::Upd(1, 2), Op::Commit(1, 0), Op::Sync(1, 0), Op::Sync(0, 1)],
        vec!["A", "B"],
    );
    let three = (
        "three-objects-moved-in-a-ring",
        3usize,
        vec![
            json!({"a♭": {"_id": "A", "child♭": null}, "b♭": {"_id": "B", "child♭": null}, "c♭": {"_id": "C", "child♭": null}}),
            json!({"a♭": {"_id": "A", "child♭": {"_id": "B", "child♭": null}}, "b♭": null, "c♭": {"_id": "C", "child♭": null}}),
            json!({"a♭": {"_id": "A", "child♭": null}, "b♭": {"_id": "B", "child♭": {"_id": "C", "child♭": null}}, "c♭": null}),
            json!({"a♭": null, "b♭": {"_id": "B", "child♭": null}, "c♭": {"_id": "C", "child♭": {"_id": "A", "child♭": null}}}),
        ],
        vec![Op::Upd(0, 0), Op::Commit(0, 0), Op::Sync(1, 0), Op::Sync(2, 0), Op::Upd(0, 1), Op::Commit(0, 0), Op::Upd(1, 2), Op::Commit(1, 0), Op::Upd(2, 3), Op::Commit(2, 0),
            Op::Sync(0, 1), Op::Sync(0, 2), Op::Sync(1, 0), Op::Sync(2, 0)],
        vec!["A", "B", "C"],
    );
    let arrays = (
        "two-array-elements-moved-into-each-other",
        2usize,
        vec![
            json!({"l♭": [{"_id": "A", "k♭": []}, {"_id": "B", "k♭": []}]}),
            json!({"l♭": [{"_id": "A", "k♭": [{"_id": "B", "k♭": []}]}]}),
            json!({"l♭": [{"_id": "B", "k♭": [{"_id": "A", "k♭": []}]}]}),
        ],
        vec![Op::Upd(0, 0), Op::Commit(0, 0), Op::Sync(1, 0), Op::Upd(0, 1), Op::Commit(0, 0), Op::Upd(1, 2), Op::Commit(1, 0), Op::Sync(1, 0), Op::Sync(0, 1)],
        vec!["A", "B"],
    );
    vec![two, three, arrays]
}

/// child side: prints one line per completed call group and exits 0; a panic caught by the guard exits 3
pub fn cycles_child() {
    let mut calls = 0u64;
    for (name, nrep, docs, hist, ids) in cycle_histories() {
        let m = crate::menu::menu(docs);
        let mut w = World::build(nrep, m, &hist);
        // vacuity indicator: the stored (flattened) objects of replica 0 refer to each other in a cycle
        {
            w.focus();
            let mm = &w.reps[0].m;
            let refs = |i: &str| -> Vec<String> {
                let mut out = vec![];
                if let Ok(o) = mm.get_value(i, None) {
                    for (k, v) in &o {
                        if k.ends_with('\u{266D}') {
                            if let Some(s) = v.as_str() {
                                if let Some(arr) = s.strip_prefix('^') {
                                    let _ = arr;
                                    if let Ok(win) = mm.get_winner(s) {
                                        if let Ok(a) = mm.verif_array_order(s, &win) {
                                            out.extend(a.iter().filter_map(|x| x.as_str().map(|x| x.to_string())));
                                        }
                                    }
                                } else {
                                    out.push(s.to_string());
                                }
                            }
                        }
                    }
                }
                out
            };
            let mut cyc = false;
            for start in &ids {
                let mut cur = vec![start.to_string()];
                for _ in 0..4 {
                    cur = cur.iter().flat_map(|c| refs(c)).collect();
                    if cur.iter().any(|c| c == start) {
                        cyc = true;
                    }
                }
            }
            println!("CYCLE {} {}", name, cyc);
        }
        for round in 0..2 {
            for r in 0..nrep {
                w.focus();
                let mm = &w.reps[r].m;
                let mut roots: Vec<Option<String>> = vec![None];
                roots.extend(ids.iter().map(|i| Some(i.to_string())));
                for root in roots {
                    let rr = root.clone();
                    let o = crate::guard::call("read", || mm.read(rr.as_deref()).map(|_| ()).map_err(|e| e.to_string()));
                    calls += 1;
                    if let Err(p) = o {
                        println!("PANIC {} replica {} read({:?}): {}", name, r, root, p);
                        std::process::exit(3);
                    }
                }
                for i in &ids {
                    let o = crate::guard::call("get_value", || mm.get_value(i, None).map(|_| ()).map_err(|e| e.to_string()));
                    calls += 1;
                    if let Err(p) = o {
                        println!("PANIC {} replica {} get_value({}): {}", name, r, i, p);
                        std::process::exit(3);
                    }
                }
                let _ = crate::guard::call("in_conflict", || mm.in_conflict());
                calls += 1;
            }
            if round == 0 {
                // then commit whatever the exchange left to resolve, exchange again, and read once more
                for r in 0..nrep {
                    w.apply(&Op::Commit(r, 0));
                }
                for r in 1..nrep {
                    w.apply(&Op::Sync(0, r));
                }
                for r in 1..nrep {
                    w.apply(&Op::Sync(r, 0));
                }
            }
        }
        println!("DONE {} calls so far {}", name, calls);
    }
    println!("ALL-RETURNED {}", calls);
}

fn cycle_pass(rep: &mut Report) {
    let exe = std::env::current_exe().expect("own executable");
    let mut child = match std::process::Command::new(exe).arg("C08-cycles-child").stdout(std::process::Stdio::piped()).stderr(std::process::Stdio::piped()).spawn() {
        Ok(c) => c,
        Err(e) => {
            eprintln!("MACHINERY: cannot start the reference-cycle child process: {}", e);
            std::process::exit(2);
        }
    };
    let t0 = std::time::Instant::now();
    let status = loop {
        match child.try_wait() {
            Ok(Some(s)) => break Some(s),
            Ok(None) => {
                if t0.elapsed() > Duration::from_secs(120) {
                    let _ = child.kill();
                    let _ = child.wait();
                    break None;
                }
                std::thread::sleep(Duration::from_millis(50));
            }
            Err(_) => break None,
        }
    };
    let mut out = String::new();
    let mut err = String::new();
    use std::io::Read;
    if let Some(mut o) = child.stdout.take() {
        let _ = o.read_to_string(&mut out);
    }
    if let Some(mut e) = child.stderr.take() {
        let _ = e.read_to_string(&mut err);
    }
    let names: Vec<&str> = cycle_histories().iter().map(|h| h.0).collect();
    let done: Vec<&str> = out.lines().filter_map(|l| l.strip_prefix("DONE ")).collect();
    let calls: u64 = out.lines().rev().find_map(|l| l.strip_prefix("ALL-RETURNED ").and_then(|n| n.trim().parse().ok())).unwrap_or(0);
    let ok = status.as_ref().is_some_and(|s| s.success()) && calls > 0;
    let cycles: Vec<&str> = out.lines().filter_map(|l| l.strip_prefix("CYCLE ")).filter(|l| l.ends_with(" true")).collect();
    rep.set("reference_cycle_pass", json!({"histories": names, "completed": done.len(), "calls_returned": calls, "histories_whose_stored_objects_form_a_reference_cycle": cycles.len(), "child_exit": status.as_ref().map(|s| format!("{:?}", s))}));
    rep.add_u64("evaluations", calls);
    if !ok {
        let failing = names.get(done.len()).copied().unwrap_or("?");
        let what = match &status {
            None => "did-not-return",
            Some(s) if s.code() == Some(3) => "panicked",
            Some(_) => "aborted-the-process",
        };
        let tail: String = err.lines().rev().take(6).collect::<Vec<_>>().into_iter().rev().collect::<Vec<_>>().join(" | ");
        rep.violations.push(Violation {
            property: "C08".into(),
            signature: format!("C08:reference-cycle:{}:{}", failing, what),
            scenario: "reference-cycles".into(),
            history: vec![],
            detail: json!({"input": {"history": failing, "documents": cycle_histories().into_iter().find(|h| h.0 == failing).map(|h| h.2)}, "child_stdout": out.lines().collect::<Vec<_>>(), "child_stderr_tail": tail,
                "child_exit": status.map(|s| format!("{:?}", s))}),
        });
    }
}

pub fn run(thorough: bool) {
    let tier = if thorough { "thorough" } else { "quick" };
    let mut rep = Report::new("C08", tier, "model_checking");
    let mut total_states = 0;
    let mut total_trans = 0;
    let mut scs = vec![];
    let mut outcomes = std::collections::BTreeSet::new();
    let mut probe_ops = 0;
    cycle_pass(&mut rep);
    'outer: for pool in if thorough { vec![1usize, 2, 16] } else { vec![1usize, 4] } {
        for sc in scenarios(thorough) {
            // a call that did not return was found: the verdict is known, the remaining scenarios would
            // only pay one watchdog period per further hang
            if rep.violations.iter().any(|v| v.signature.contains("did-not-return") || v.signature.contains("hang")) {
                rep.set("stopped_after_a_call_did_not_return", json!(true));
                break 'outer;
            }
            // quick tier: the larger pool is exercised on the conflict-heavy scenarios only
            if pool != 1 && sc.name.starts_with("x-") {
                continue;
            }
            if !thorough && pool != 1 && !["pair-conflict", "pair-rootkinds", "trio"].contains(&sc.name.as_str()) {
                continue;
            }
            let full = full_alphabet(sc.nrep, sc.menu.docs.len());
            let ex = Explorer {
                sc: sc.clone(),
                probes: vec![Arc::new(AllOpsProbe { full, odd_within: if pool == 1 { Some(if thorough { 2 } else if sc.name.starts_with("x-") { 0 } else { 1 }) } else { None } })],
                limits: Limits {
                    pool_size: pool,
                    time_budget: Duration::from_secs(if thorough { 1500 } else { 25 }),
                    max_states: if thorough { 300_000 } else { 6_000 },
                    ..Default::default()
                },
            };
            let t_sc = std::time::Instant::now();
            let r = ex.run(false);
            let sc_wall = t_sc.elapsed().as_secs_f64();
            total_states += r.stats.states;
            total_trans += r.stats.transitions;
            probe_ops += r.cx.counters.get("probe_ops").copied().unwrap_or(0);
            outcomes.extend(r.cx.outcomes.iter().cloned());
            let mut sj = stats_json(&r.stats);
            sj["scenario"] = sc.describe();
            sj["rayon_pool_size"] = json!(pool);
            sj["wall_s"] = json!((sc_wall * 10.0).round() / 10.0);
            scs.push(sj);
            for s in &r.stats.sample_histories {
                rep.push_sample(json!({"scenario": sc.name, "history": s}));
            }
            rep.violations.extend(r.cx.violations);
        }
    }
    // the same probe with both caches reduced to one entry (objects are then read back from the packs through the
    // recorded offsets instead of being served from memory)
    if rep.violations.is_empty() {
        std::env::set_var("MELDA_DATA_CACHE_CAP", "1");
        std::env::set_var("MELDA_ARRAYDESCRIPTORS_CACHE_CAP", "1");
        for sc in scenarios(thorough).into_iter().filter(|s| ["pair-conflict", "single-kinds"].contains(&s.name.as_str()) || (thorough && s.name == "pair-arrays")) {
            let full = full_alphabet(sc.nrep, sc.menu.docs.len());
            let ex = Explorer {
                sc: sc.clone(),
                probes: vec![Arc::new(AllOpsProbe { full, odd_within: None })],
                limits: Limits { pool_size: 1, time_budget: Duration::from_secs(if thorough { 600 } else { 20 }), max_states: if thorough { 100_000 } else { 3_000 }, ..Default::default() },
            };
            let r = ex.run(false);
            total_states += r.stats.states;
            total_trans += r.stats.transitions;
            probe_ops += r.cx.counters.get("probe_ops").copied().unwrap_or(0);
            let mut sj = stats_json(&r.stats);
            sj["scenario"] = sc.describe();
            sj["rayon_pool_size"] = json!(1);
            sj["cache_capacities"] = json!(1);
            scs.push(sj);
            rep.violations.extend(r.cx.violations);
        }
        std::env::remove_var("MELDA_DATA_CACHE_CAP");
        std::env::remove_var("MELDA_ARRAYDESCRIPTORS_CACHE_CAP");
    }
    rep.set("states", json!(total_states));
    rep.set("transitions", json!(total_trans));
    rep.set("traces_validated_against_impl", json!(total_trans));
    rep.set("evaluations", json!(probe_ops as usize + total_trans));
    rep.set("distinct_nontrivial", json!(outcomes.len()));
    rep.set("rule", json!("every distinct state reached by breadth-first exploration of the scenario alphabets (real Melda replicas, state = canonical dump of storage, revision trees, stage, block statuses, caches); in each state every operation of the full API alphabet is attempted under catch_unwind and a heartbeat watchdog; distinct_nontrivial = number of distinct observable views seen"));
    rep.set("exhaustive", json!(scs.iter().all(|s| s["capped"].is_null())));
    rep.set("scenarios", json!(scs));
    crate::props::engine_s::run_engine_s(&mut rep, thorough, "C08");
    rep.set("explanation", json!("Every transition is an execution of the real implementation, so every explored trace is validated against the implementation by construction."));
    rep.assume("engine H: real rayon timing is not enumerated (pool sizes are); engine S enumerates schedules of a model of the pool (queue + W workers) over the real melda.rs code and lock nesting, within the preemption bound; rayon internals and std lock implementations are trusted");
    rep.assume("watchdog: a call that makes no progress for MV_WATCHDOG_S (default 10) seconds is reported as not returning");
    rep.finish();
}
