//! C01 — replicas holding the same committed history converge, whatever the route.
use super::common::*;
use crate::adapter::ListMode;
use crate::explore::*;
use crate::guard::{call, set_trace};
use crate::menu::*;
use crate::report::Report;
use crate::world::*;
use melda::verif_hooks::order;
use serde_json::{json, Value};
use std::sync::Arc;

pub struct ConvergeProbe {
    pub deviations: bool,
}

fn refresh_ok(w: &mut World, r: usize) -> bool {
    matches!(w.apply(&Op::Refresh(r)), OpOut::Ok(_))
}

impl Probe for ConvergeProbe {
    /// a replica that has just travelled in time has loaded its whole storage (it applies only the chosen part):
    /// another replica that melds from it receives every item that storage holds
    fn on_transition(&self, sc: &Scenario, hist: &[Op], op: &Op, _pre: &World, out: &OpOut, post: &World, cx: &mut Cx) {
        let Op::Travel(r, _) = op else { return };
        if !out.is_ok() || post.any_dead() {
            return;
        }
        let mut h = hist.to_vec();
        h.push(op.clone());
        for s in 0..sc.nrep {
            if s == *r {
                continue;
            }
            let mut w = sc.build(&h);
            let o = w.apply(&Op::Meld(s, *r));
            if !o.is_ok() {
                continue;
            }
            cx.count("meld_from_a_travelled_source");
            let (src, tgt) = (w.reps[*r].store.snapshot(), w.reps[s].store.snapshot());
            // items that are intact by name (what meld verifies) must all have arrived
            let missing: Vec<&String> = src.iter().filter(|(k, v)| crate::props::c11::check_item(k, v).is_none() && !tgt.contains_key(*k)).map(|(k, _)| k).collect();
            if !missing.is_empty() {
                let mut h2 = h.clone();
                h2.push(Op::Meld(s, *r));
                cx.violation("C01", "C01:meld-from-a-travelled-replica-leaves-items-behind", sc, &h2, json!({"source": r, "target": s, "missing": missing, "meld": o.text()}));
                return;
            }
        }
    }
    fn on_state(&self, sc: &Scenario, hist: &[Op], cx: &mut Cx) {
        let w = sc.build(hist);
        if w.any_dead() {
            return;
        }
        let n = sc.nrep;
        let staged: Vec<bool> = (0..n).map(|r| has_staging(&w.reps[r].m)).collect();
        let stores: Vec<RawStore> = (0..n).map(|r| w.reps[r].store.snapshot()).collect();
        drop(w);
        // (1) same storage => same state (after each side has refreshed what it holds)
        for r in 0..n {
            for s in (r + 1)..n {
                if staged[r] || staged[s] || stores[r] != stores[s] {
                    continue;
                }
                let mut w = sc.build(hist);
                if !refresh_ok(&mut w, r) || !refresh_ok(&mut w, s) {
                    continue;
                }
                cx.count("same_store_same_view");
                let (a, b) = (w.view(r), w.view(s));
                if a != b {
                    cx.violation("C01", "C01:same-store-different-view", sc, hist,
                        json!({"replicas":[r,s], "differs": diff_keys(&a,&b), "view_a": a, "view_b": b}));
                }
            }
        }
        // (2) union of two storages reached by four routes
        for r in 0..n {
            for s in 0..n {
                if r == s || staged[r] || staged[s] {
                    continue;
                }
                let u = union(&stores[r], &stores[s]);
                let missing: Vec<String> = u.keys().filter(|k| !stores[r].contains_key(*k)).cloned().collect();
                // route a: plain file copy into an empty store + open
                let va = fresh_view(&u, "C01 fresh(U)");
                cx.count("route_fresh_open");
                cx.outcome(sha_hex(va.to_string().as_bytes()));
                if va.get("open").is_some() {
                    cx.violation("C01", "C01:open-failed-on-union", sc, hist, json!({"pair":[r,s], "result": va}));
                    continue;
                }
                if self.deviations {
                    // the same open under other hash-iteration / listing orders
                    for (oi, om) in [order::Mode::Reverse, order::Mode::Rotate(1)].iter().enumerate() {
                        for (li, lm) in [ListMode::Sorted, ListMode::Reverse, ListMode::Rotate(1)].iter().enumerate() {
                            order::set_thread_source(Some(order::Source::new(om.clone())));
                            let v = match fresh_on(&u, "C01 fresh(U) deviated") {
                                Ok((m, st)) => {
                                    // listing order applies to reload
                                    st.set_list_mode(lm.clone());
                                    let _ = call("reload", || m.reload());
                                    view(&m)
                                }
                                Err(e) => json!({"open": e}),
                            };
                            order::set_thread_source(None);
                            cx.count("route_fresh_open_deviated");
                            if v != va {
                                cx.violation("C01", "C01:order-dependent-open", sc, hist,
                                    json!({"pair":[r,s], "order_mode": oi, "list_mode": li, "differs": diff_keys(&v,&va), "view": v, "expected": va}));
                            }
                        }
                    }
                }
                if missing.is_empty() {
                    // r already holds U: refresh, then reload
                    let mut w = sc.build(hist);
                    if refresh_ok(&mut w, r) {
                        cx.count("route_refresh");
                        let v = w.view(r);
                        if v != va {
                            cx.violation("C01", "C01:refresh-differs-from-fresh-open", sc, hist,
                                json!({"pair":[r,s], "differs": diff_keys(&v,&va), "view": v, "expected": va}));
                        }
                    }
                    continue;
                }
                // route b: copy everything, one refresh, then reload
                {
                    let mut w = sc.build(hist);
                    w.apply(&Op::CopyAll(r, s));
                    if refresh_ok(&mut w, r) {
                        cx.count("route_copy_refresh");
                        let v = w.view(r);
                        if v != va {
                            cx.violation("C01", "C01:copy-refresh-differs", sc, hist,
                                json!({"pair":[r,s], "differs": diff_keys(&v,&va), "view": v, "expected": va}));
                        }
                        w.apply(&Op::Reload(r));
                        cx.count("route_reload");
                        let v = w.view(r);
                        if v != va {
                            cx.violation("C01", "C01:reload-differs", sc, hist,
                                json!({"pair":[r,s], "differs": diff_keys(&v,&va), "view": v, "expected": va}));
                        }
                    }
                }
                // route b': one item at a time, ascending and descending, refresh after each
                for rev in [false, true] {
                    let mut order_: Vec<String> = missing.clone();
                    if rev {
                        order_.reverse();
                    }
                    let mut w = sc.build(hist);
                    let mut ok = true;
                    for k in &order_ {
                        w.reps[r].store.put_raw(k, u[k].clone());
                        if !refresh_ok(&mut w, r) {
                            ok = false;
                            break;
                        }
                    }
                    if ok {
                        cx.count("route_incremental");
                        let v = w.view(r);
                        if v != va {
                            cx.violation("C01", "C01:incremental-differs", sc, hist,
                                json!({"pair":[r,s], "reverse": rev, "differs": diff_keys(&v,&va), "view": v, "expected": va}));
                        }
                    }
                }
                // route c: meld in both directions until nothing new is learned
                if r < s {
                    let mut w = sc.build(hist);
                    if !refresh_ok(&mut w, r) || !refresh_ok(&mut w, s) {
                        continue;
                    }
                    let mut rounds = 0;
                    let mut fix = false;
                    while rounds < 4 {
                        rounds += 1;
                        let a = w.apply(&Op::Sync(r, s));
                        let b = w.apply(&Op::Sync(s, r));
                        let empty = |o: &OpOut| matches!(o, OpOut::Ok(t) if t == "melded[]");
                        if !a.is_ok() || !b.is_ok() {
                            cx.violation("C01", "C01:meld-route-failed", sc, hist, json!({"pair":[r,s], "a": a.text(), "b": b.text()}));
                            break;
                        }
                        if empty(&a) && empty(&b) {
                            fix = true;
                            break;
                        }
                    }
                    if w.any_dead() {
                        continue;
                    }
                    cx.count("route_meld_fixpoint");
                    if !fix {
                        cx.violation("C01", "C01:meld-no-fixpoint", sc, hist, json!({"pair":[r,s]}));
                        continue;
                    }
                    let (vr, vs) = (w.view(r), w.view(s));
                    if vr != vs || vr != va {
                        cx.violation("C01", "C01:meld-fixpoint-differs", sc, hist,
                            json!({"pair":[r,s], "rounds": rounds, "differs_rs": diff_keys(&vr,&vs), "differs_ra": diff_keys(&vr,&va), "view_r": vr, "view_s": vs, "expected": va}));
                    }
                    let (sr, ss) = (w.reps[r].store.snapshot(), w.reps[s].store.snapshot());
                    if sr != ss || sr != u {
                        cx.violation("C01", "C01:meld-fixpoint-stores-differ", sc, hist,
                            json!({"pair":[r,s], "keys_r": sr.keys().collect::<Vec<_>>(), "keys_s": ss.keys().collect::<Vec<_>>(), "keys_u": u.keys().collect::<Vec<_>>()}));
                    }
                }
            }
        }
        set_trace("");
    }
}

pub fn scenarios(thorough: bool) -> Vec<Scenario> {
    let mut v = vec![];
    v.push(pair_scenario("pair-arrays", if thorough { &[1, 2, 3, 6, 9] } else { &[2, 3, 9] }, if thorough { 6 } else { 5 },
        &[Op::Resolve(0, 0, 0), Op::Resolve(1, 0, 1), Op::Meld(0, 1), Op::Meld(1, 0)]));
    v.push(pair_conflict_scenario("pair-conflict", 2, 3, if thorough { &[1, 6, 8, 4] } else { &[1, 8] }, if thorough { 5 } else { 4 },
        &[Op::Resolve(1, 0, 0), Op::Resolve(1, 0, 1), Op::Resolve(0, 0, 0), Op::Meld(0, 1)]));
    v.push(pair_conflict_scenario("pair-conflict-edit-vs-delete", 4, 3, &[8, 9], if thorough { 5 } else { 4 },
        &[Op::Resolve(1, 0, 0), Op::Resolve(1, 0, 1), Op::Resolve(1, 1, 0), Op::Resolve(0, 0, 1)]));
    v.push(trio_scenario("trio", if thorough { 8 } else { 6 }));
    v.push(long_chain_scenario("pair-long-chain", if thorough { 3 } else { 2 }, &[]));
    v.push(many_commits_scenario("pair-many-commits", if thorough { 4 } else { 3 }, &[]));
    v.push(relay_scenario("trio-relay", if thorough { 7 } else { 6 }, &[]));
    v.push(three_leaves_scenario("trio-three-leaves", if thorough { 4 } else { 3 }, &[]));
    v.push(same_edit_scenario("pair-same-edit", if thorough { 4 } else { 3 }, &[]));
    v.push(tie_scenario("pair-tie", if thorough { 4 } else { 3 }, &[]));
    v.push(two_patch_scenario("pair-two-patches", if thorough { 4 } else { 3 }, &[]));
    v.push(diamond_scenario("pair-diamond", &[1, 9], if thorough { 4 } else { 3 }, &[Op::Resolve(0, 0, 0), Op::ObjPut(0, 1), Op::ObjPut(1, 2)]));
    // depth 2 in both tiers: every pair of operations from every prepared state
    v.extend(cross_scenarios_depth(2));
    // (this probe re-builds histories under hash orders of its own: scenarios with a fixed non-default order are left out)
    v.extend(combo_scenarios(thorough).into_iter().filter(|s| s.order.is_none()));
    v
}

pub fn run(thorough: bool) {
    let mut rep = Report::new("C01", if thorough { "thorough" } else { "quick" }, "model_checking");
    run_h(&mut rep, RunCfg {
        scenarios: scenarios(thorough),
        probes: vec![Arc::new(ConvergeProbe { deviations: true })],
        pools: vec![1],
        time_budget_s: if thorough { 2400 } else { 50 },
        max_states: if thorough { 200_000 } else { 20_000 },
        stop_on_violation: true,
    });
    rep.set("rule", json!("every distinct state of the 2- and 3-replica scenarios; for every ordered pair of replicas without staged changes the union of their storages is reached by: fresh open on a file copy (also under reversed/rotated hash-iteration and listing orders), copy+refresh, reload, one-item-at-a-time refresh in ascending and descending order, and meld+refresh in both directions to a fix-point; all views (objects, winners, conflict sets, values, document, heads) must be equal. distinct_nontrivial = distinct converged views observed"));
    rep.assume("views compared: get_all_objects, get_winner, get_conflicting, get_value(None), in_conflict, read(None), get_anchors");
    rep.assume("all permutations of delivery orders are enumerated by C02; C01 covers ascending/descending/all-at-once");
    finalize(&mut rep);
    rep.finish();
}
