//! C18 — results do not depend on threads, hash order, listing order or cache sizes.
use super::common::*;
use crate::adapter::{set_default_list_mode, ListMode};
use crate::explore::*;
use crate::guard::{Exec, Outcome};
use crate::menu::*;
use crate::report::Report;
use crate::world::*;
use melda::verif_hooks::order;
use serde_json::{json, Value};
use std::collections::BTreeSet;
use std::sync::atomic::{AtomicUsize, Ordering};
use std::sync::{Arc, Mutex};

#[derive(Clone, Debug)]
pub struct Config {
    pub name: String,
    pub pool: usize,
    pub order: Option<order::Mode>,
    pub list: ListMode,
    /// compare without the head identifiers (block ids legitimately depend on the hash order)
    pub ignore_anchors: bool,
}

fn eval(sc: &Scenario, hist: &[Op], cfg: &Config) -> (Vec<Value>, Vec<(usize, usize)>) {
    set_default_list_mode(cfg.list.clone());
    if let Some(m) = &cfg.order {
        let mut src = order::Source::new(m.clone());
        src.record = matches!(m, order::Mode::Sorted);
        order::set_thread_source(Some(src));
    }
    let w = sc.build(hist);
    let views: Vec<Value> = (0..sc.nrep).map(|r| if cfg.ignore_anchors { strip_anchors(&w.view(r)) } else { w.view(r) }).collect();
    let log = order::take_thread_source().map(|s| s.log).unwrap_or_default();
    set_default_list_mode(ListMode::Sorted);
    (views, log)
}

/// evaluates every history under a configuration, in parallel, each worker on its own executor
fn par_eval(sc: &Arc<Scenario>, hists: &Arc<Vec<Vec<Op>>>, cfg: &Config, workers: usize) -> Vec<Option<(Vec<Value>, Vec<(usize, usize)>)>> {
    let n = hists.len();
    let out: Mutex<Vec<Option<(Vec<Value>, Vec<(usize, usize)>)>>> = Mutex::new(vec![None; n]);
    let next = AtomicUsize::new(0);
    std::thread::scope(|s| {
        for _ in 0..workers.min(n).max(1) {
            s.spawn(|| {
                let mut ex = Exec::new(cfg.pool);
                loop {
                    let i = next.fetch_add(1, Ordering::SeqCst);
                    if i >= n {
                        break;
                    }
                    let (sc2, h2, c2) = (sc.clone(), hists.clone(), cfg.clone());
                    match ex.run(move || eval(&sc2, &h2[i], &c2)) {
                        Outcome::Done(v) => out.lock().unwrap()[i] = Some(v),
                        Outcome::Panic(m) => {
                            eprintln!("MACHINERY: evaluation panicked: {}", m);
                            std::process::exit(2);
                        }
                        Outcome::Hang(_, l) => {
                            out.lock().unwrap()[i] = Some((vec![json!({"hang": l})], vec![]));
                        }
                    }
                }
            });
        }
    });
    out.into_inner().unwrap()
}

pub fn run(thorough: bool) {
    let mut rep = Report::new("C18", if thorough { "thorough" } else { "quick" }, "model_checking");
    let sc = pair_scenario("pair-arrays", if thorough { &[1, 2, 3, 6, 9] } else { &[2, 3, 6] }, if thorough { 5 } else { 4 },
        &[Op::Resolve(0, 0, 0), Op::Resolve(1, 0, 1), Op::Unstage(0), Op::Reopen(1), Op::StageRt(0)]);
    let sc2 = pair_conflict_scenario("pair-conflict", 2, 3, &[1, 8], if thorough { 4 } else { 3 }, &[Op::Resolve(1, 0, 1), Op::Reopen(1), Op::Reopen(0), Op::StageRt(1)]);
    let mut total_cmp = 0u64;
    let mut cfg_stats = vec![];
    let mut outcomes: BTreeSet<String> = BTreeSet::new();
    let a = arr_docs();
    let sc3 = single_scenario("single-first-commit", vec![a[0].clone(), a[3].clone(), a[4].clone(), a[8].clone()], if thorough { 5 } else { 4 }, &[Op::Reopen(0), Op::Unstage(0), Op::ObjPut(0, 1), Op::StageRt(0)]);
    // a chain of two stored edit scripts above a fork, a concurrent branch on the other replica, and `read` as an
    // operation: a cold reopen + read rebuilds the whole chain in one call (what it leaves in the reconstruction
    // cache depends on the capacity) before the concurrent branch is melded and read
    let sc4 = two_patch_scenario("pair-two-patches-cold", if thorough { 4 } else { 3 }, &[Op::Read(0), Op::Read(1)]);
    for sc in [sc, sc2, sc3, sc4] {
        if rep.violations.iter().any(|v| v.signature.contains("does-not-return")) {
            break;
        }
        // pass 1: every distinct state of the scenario (representative histories)
        let ex = Explorer { sc: sc.clone(), probes: vec![], limits: Limits { pool_size: 1, max_states: if thorough { 60_000 } else { 4_000 }, ..Default::default() } };
        let r = ex.run(true);
        // the representative histories, plus every operation that usually leads back to an already seen state
        // (stage round trip, unstage, reopen, reload, refresh, snapshot) appended to each of them: under another
        // configuration such a "self-loop" may not be one, and the representatives alone would never show it
        let mut hs: Vec<Vec<Op>> = r.states.clone();
        {
            let mut seen: std::collections::HashSet<Vec<Op>> = hs.iter().cloned().collect();
            let loops: Vec<Op> = sc.alphabet.iter().filter(|o| matches!(o, Op::StageRt(_) | Op::Unstage(_) | Op::Reopen(_) | Op::Reload(_) | Op::Refresh(_) | Op::Snapshot(_))).cloned().collect();
            for h in &r.states {
                for o in &loops {
                    let mut h2 = h.clone();
                    h2.push(o.clone());
                    if seen.insert(h2.clone()) {
                        hs.push(h2);
                    }
                }
            }
        }
        let hists = Arc::new(hs);
        let sca = Arc::new(sc.clone());
        let mut sj = stats_json(&r.stats);
        sj["scenario"] = sc.describe();
        rep.add_u64("states", r.stats.states as u64);
        rep.add_u64("transitions", r.stats.transitions as u64);
        rep.add_u64("traces_validated_against_impl", r.stats.transitions as u64);
        let base_cfg = Config { name: "baseline".into(), pool: 1, order: Some(order::Mode::Sorted), list: ListMode::Sorted, ignore_anchors: false };
        let base = par_eval(&sca, &hists, &base_cfg, 16);
        for b in base.iter().flatten() {
            outcomes.insert(sha_hex(serde_json::to_string(&b.0).unwrap().as_bytes()));
        }
        // replay discipline: the baseline evaluated twice must be identical
        let base2 = par_eval(&sca, &hists, &base_cfg, 16);
        for i in 0..hists.len() {
            if base[i].as_ref().map(|x| &x.0) != base2[i].as_ref().map(|x| &x.0) {
                eprintln!("MACHINERY: baseline replay diverged for {}", hist_str(&hists[i]));
                std::process::exit(2);
            }
        }
        let mut configs: Vec<Config> = vec![];
        for p in if thorough { vec![2usize, 3, 4, 8, 16] } else { vec![2, 4, 16] } {
            configs.push(Config { name: format!("rayon-pool-{}", p), pool: p, order: None, list: ListMode::Sorted, ignore_anchors: false });
        }
        for (n, m) in [("reverse", order::Mode::Reverse), ("rotate1", order::Mode::Rotate(1)), ("rotate2", order::Mode::Rotate(2))] {
            configs.push(Config { name: format!("hash-order-{}", n), pool: 1, order: Some(m), list: ListMode::Sorted, ignore_anchors: true });
        }
        for (n, m) in [("reverse", ListMode::Reverse), ("rotate1", ListMode::Rotate(1)), ("rotate2", ListMode::Rotate(2))] {
            configs.push(Config { name: format!("listing-{}", n), pool: 1, order: None, list: m, ignore_anchors: false });
        }
        let mut run_cfg = |cfg: &Config, rep: &mut Report, label: &str| {
            let res = par_eval(&sca, &hists, cfg, if cfg.pool > 4 { 4 } else { 16 });
            let mut n = 0u64;
            for i in 0..hists.len() {
                let (Some(b), Some(c)) = (&base[i], &res[i]) else { continue };
                n += 1;
                let bv: Vec<Value> = if cfg.ignore_anchors { b.0.iter().map(strip_anchors).collect() } else { b.0.clone() };
                if bv != c.0 {
                    // (a history that does not return under this configuration is recorded as a one-element marker)
                    let hung = c.0.len() != bv.len();
                    let sig = if hung { format!("C18:does-not-return-under-{}", label) } else { format!("C18:depends-on-{}", label) };
                    let differs: Vec<Value> = if hung { vec![] } else { (0..bv.len()).map(|r| json!(diff_keys(&bv[r], &c.0[r]))).collect() };
                    rep.violations.push(Violation { property: "C18".into(), signature: sig, scenario: sc.name.clone(), history: hists[i].clone(),
                        detail: json!({"configuration": cfg.name, "differs": differs, "baseline": bv, "views": c.0, "menu": {"docs": sc.menu.docs, "infos": sc.menu.infos, "replicas": sc.nrep}}) });
                    break;
                }
            }
            n
        };
        for cfg in &configs {
            // calls that do not return cost one watchdog period each: the verdict is known, stop here
            if rep.violations.iter().any(|v| v.signature.contains("does-not-return")) {
                break;
            }
            let label = cfg.name.split('-').next().unwrap().to_string();
            let n = run_cfg(cfg, &mut rep, &label);
            total_cmp += n;
            cfg_stats.push(json!({"scenario": sc.name, "configuration": cfg.name, "histories_compared": n}));
        }
        // cache capacities (read from the environment at construction; workers are idle between phases)
        let hung_already = rep.violations.iter().any(|v| v.signature.contains("does-not-return"));
        for ac in if hung_already { vec![] } else { vec!["1", "2", "16"] } {
            for dc in ["1", "2", "16"] {
                if ac == "16" && dc == "16" {
                    continue;
                }
                std::env::set_var("MELDA_ARRAYDESCRIPTORS_CACHE_CAP", ac);
                std::env::set_var("MELDA_DATA_CACHE_CAP", dc);
                let cfg = Config { name: format!("cache-caps-array{}-data{}", ac, dc), pool: 1, order: None, list: ListMode::Sorted, ignore_anchors: false };
                let n = run_cfg(&cfg, &mut rep, "cache");
                total_cmp += n;
                cfg_stats.push(json!({"scenario": sc.name, "configuration": cfg.name, "histories_compared": n}));
            }
        }
        std::env::remove_var("MELDA_ARRAYDESCRIPTORS_CACHE_CAP");
        std::env::remove_var("MELDA_DATA_CACHE_CAP");
        // one deviating iteration site per run: every permutation of every recorded iteration of 2..4 elements
        let max_len = sc.prologue.len() + if thorough { 3 } else { 2 };
        let mut site_runs = 0u64;
        let mut site_hists = 0u64;
        let jobs: Vec<(usize, usize, Vec<usize>)> = {
            let mut j = vec![];
            for (i, h) in hists.iter().enumerate() {
                if h.len() > max_len {
                    continue;
                }
                site_hists += 1;
                if let Some((_, log)) = &base[i] {
                    for (site, len) in log {
                        if *len >= 2 && *len <= (if thorough { 4 } else { 3 }) {
                            for p in permutations(*len).into_iter().skip(1) {
                                j.push((i, *site, p));
                            }
                        }
                    }
                }
            }
            j
        };
        let jobs = Arc::new(jobs);
        let bad: Mutex<Option<(usize, Value)>> = Mutex::new(None);
        let next = AtomicUsize::new(0);
        let done = AtomicUsize::new(0);
        std::thread::scope(|s| {
            for _ in 0..16 {
                s.spawn(|| {
                    let mut ex = Exec::new(1);
                    loop {
                        let j = next.fetch_add(1, Ordering::SeqCst);
                        if j >= jobs.len() || bad.lock().unwrap().is_some() {
                            break;
                        }
                        let (i, site, perm) = jobs[j].clone();
                        let cfg = Config { name: format!("hash-order-site{}-perm{:?}", site, perm), pool: 1, order: Some(order::Mode::Script { site, perm }), list: ListMode::Sorted, ignore_anchors: true };
                        let (sc3, h3, c3) = (sca.clone(), hists.clone(), cfg.clone());
                        if let Outcome::Done((v, _)) = ex.run(move || eval(&sc3, &h3[i], &c3)) {
                            done.fetch_add(1, Ordering::SeqCst);
                            let bv: Vec<Value> = base[i].as_ref().unwrap().0.iter().map(strip_anchors).collect();
                            if bv != v {
                                *bad.lock().unwrap() = Some((i, json!({"configuration": cfg.name, "baseline": bv, "views": v})));
                            }
                        }
                    }
                });
            }
        });
        site_runs += done.load(Ordering::SeqCst) as u64;
        if let Some((i, mut d)) = bad.into_inner().unwrap() {
            d["menu"] = json!({"docs": sc.menu.docs, "infos": sc.menu.infos, "replicas": sc.nrep});
            rep.violations.push(Violation { property: "C18".into(), signature: "C18:depends-on-hash-order-at-one-site".into(), scenario: sc.name.clone(), history: hists[i].clone(), detail: d });
        }
        total_cmp += site_runs;
        cfg_stats.push(json!({"scenario": sc.name, "configuration": "single-deviating-iteration-site", "histories": site_hists, "runs": site_runs}));
        sj["histories"] = json!(hists.len());
        let mut scs = rep.coverage.get("scenarios").and_then(|v| v.as_array().cloned()).unwrap_or_default();
        scs.push(sj);
        rep.set("scenarios", json!(scs));
        for h in hists.iter().skip(hists.len() / 2).take(2) {
            rep.push_sample(json!({"scenario": sc.name, "history": hist_str(h)}));
        }
    }
    rep.set("evaluations", json!(total_cmp));
    crate::props::engine_s::run_engine_s(&mut rep, thorough, "C18");
    rep.set("distinct_nontrivial", json!(outcomes.len()));
    rep.set("configurations", json!(cfg_stats));
    rep.set("exhaustive", json!(true));
    rep.set("rule", json!("for EVERY distinct state (representative history) of the two-replica scenarios up to the stated depth, the views of all replicas under the baseline configuration are compared with the views under each of: rayon pool size 2..16; hash-iteration order reversed / rotated (every iteration of the ordered-map shim); storage listing order reversed / rotated; cache capacities {1,2,16}^2; and - for the shorter histories - EVERY permutation at EVERY single iteration site of 2..4 elements (one deviating site per run). Block identifiers legitimately depend on the hash order and are excluded from that comparison only. The baseline is evaluated twice and must be identical (replay discipline). distinct_nontrivial = distinct baseline view tuples"));
    rep.assume("real rayon timing is not enumerated (pool sizes are); schedules of the parallel sections are enumerated by engine S (see C08/C18 in DESIGN.md)");
    finalize(&mut rep);
    rep.finish();
}
