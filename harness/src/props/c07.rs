//! C07 — resolving a conflict adopts the chosen revision and propagates.
use super::common::*;
use crate::explore::*;
use crate::menu::*;
use crate::report::Report;
use crate::world::*;
use serde_json::{json, Value};
use std::collections::BTreeSet;
use std::sync::Arc;

pub struct ResolveProbe;

fn all_ids(doc: &Value, out: &mut Vec<String>) {
    match doc {
        Value::Object(o) => {
            if let Some(id) = o.get("_id").and_then(|i| i.as_str()) {
                out.push(id.to_string());
            }
            for (k, v) in o {
                if k.ends_with('\u{266D}') {
                    all_ids(v, out);
                }
            }
        }
        Value::Array(a) => {
            for e in a {
                all_ids(e, out);
            }
        }
        _ => {}
    }
}

fn is_del(rev: &str) -> bool {
    crate::refmodel::rev_digest(rev).as_deref() == Some("d")
}

impl Probe for ResolveProbe {
    fn on_state(&self, sc: &Scenario, hist: &[Op], cx: &mut Cx) {
        let w0 = sc.build(hist);
        if w0.any_dead() {
            return;
        }
        let n = sc.nrep;
        let stores: Vec<RawStore> = (0..n).map(|r| w0.reps[r].store.snapshot()).collect();
        let staged: Vec<bool> = (0..n).map(|r| has_staging(&w0.reps[r].m)).collect();
        // blocks each replica has APPLIED (storage may hold melded blocks that were not refreshed yet)
        let applied: Vec<BTreeSet<String>> = (0..n)
            .map(|r| w0.reps[r].m.verif_delta_status().into_iter().filter(|(_, s)| *s == "applied").map(|(k, _)| k).collect())
            .collect();
        // a committed resolution is kept by the replica that made it: with nothing staged and every stored block
        // applied, the live conflict set is the one a replica freshly opened on the same storage reports
        // (e.g. resolve; commit; edit the same object; unstage)
        for r in 0..n {
            let stored: BTreeSet<String> = stores[r].keys().filter_map(|k| k.strip_suffix(".delta").map(|s| s.to_string())).collect();
            if staged[r] || stored != applied[r] {
                continue;
            }
            cx.count("live_conflict_set_equals_reopened_checks");
            if let Ok((m2, _)) = fresh_on(&stores[r], "C07 reopen") {
                let reopened_applied: BTreeSet<String> = m2.verif_delta_status().into_iter().filter(|(_, s)| *s == "applied").map(|(k, _)| k).collect();
                if reopened_applied != applied[r] {
                    continue;
                }
                w0.focus();
                let live: Vec<String> = w0.reps[r].m.in_conflict().into_iter().collect();
                let re: Vec<String> = m2.in_conflict().into_iter().collect();
                if live != re {
                    cx.violation("C07", "C07:committed-resolution-not-kept-by-the-live-replica", sc, hist, json!({"replica": r, "live_in_conflict": live, "reopened_in_conflict": re}));
                    return;
                }
            }
        }
        for r in 0..n {
            w0.focus();
            let conflicts: Vec<String> = w0.reps[r].m.in_conflict().into_iter().collect();
            for (j, uuid) in conflicts.iter().enumerate() {
                let leafs = w0.reps[r].m.verif_leafs(uuid).unwrap_or_default();
                let winner = w0.reps[r].m.get_winner(uuid).unwrap_or_default();
                for (k, leaf) in leafs.iter().enumerate() {
                    let mut w = sc.build(hist);
                    w.focus();
                    let m = &w.reps[r].m;
                    let read_before = read_doc(m);
                    let value_at_leaf = m.get_value(uuid, Some(leaf)).ok();
                    let is_arr = uuid.starts_with('^');
                    let leaf_order: Option<Vec<Value>> = if is_arr { m.verif_array_order(uuid, leaf).ok() } else { None };
                    let op = Op::Resolve(r, j, k);
                    let o = w.apply(&op);
                    let mut h = hist.to_vec();
                    h.push(op.clone());
                    cx.count("resolutions");
                    let kind = if is_arr { "array" } else if is_del(leaf) { "deletion-leaf" } else { "object" };
                    if !o.is_ok() {
                        if !matches!(o, OpOut::Panic(_) | OpOut::Hang(_)) {
                            cx.violation("C07", &format!("C07:resolve-failed:{}", kind), sc, &h, json!({"uuid": uuid, "leaf": leaf, "outcome": o.text()}));
                        }
                        continue;
                    }
                    w.focus();
                    let m = &w.reps[r].m;
                    if m.in_conflict().contains(uuid) {
                        cx.violation("C07", &format!("C07:still-in-conflict:{}", kind), sc, &h, json!({"uuid": uuid, "leaf": leaf, "leafs_after": m.verif_leafs(uuid)}));
                        continue;
                    }
                    let read_after = read_doc(m);
                    cx.outcome(sha_hex(read_after.to_string().as_bytes()));
                    if leaf == &winner && read_after != read_before {
                        cx.violation("C07", &format!("C07:choosing-the-winner-changed-the-document:{}", kind), sc, &h, json!({"uuid": uuid, "leaf": leaf, "before": read_before, "after": read_after}));
                        continue;
                    }
                    if !is_arr {
                        if is_del(leaf) {
                            let wnow = m.get_winner(uuid).unwrap_or_default();
                            let mut ids = vec![];
                            if let Some(d) = read_after.get("ok") {
                                all_ids(d, &mut ids);
                            }
                            if !is_del(&wnow) || ids.contains(uuid) {
                                cx.violation("C07", "C07:resolving-to-a-deletion-did-not-delete", sc, &h,
                                    json!({"uuid": uuid, "leaf": leaf, "winner_after": wnow, "value_after": m.get_value(uuid, None).ok(), "read_after": read_after}));
                                continue;
                            }
                        } else {
                            let vnow = m.get_value(uuid, None).ok();
                            if vnow != value_at_leaf {
                                cx.violation("C07", "C07:value-differs-from-chosen-revision", sc, &h, json!({"uuid": uuid, "leaf": leaf, "value_after": vnow, "value_at_leaf": value_at_leaf}));
                                continue;
                            }
                        }
                    } else if let (Some(lo), Some(before), Some(after)) = (&leaf_order, read_before.get("ok"), read_after.get("ok")) {
                        // array: no element lost, the chosen version's relative order is kept
                        let (mut ib, mut ia) = (vec![], vec![]);
                        all_ids(before, &mut ib);
                        all_ids(after, &mut ia);
                        let (sb, sa): (BTreeSet<_>, BTreeSet<_>) = (ib.iter().cloned().collect(), ia.iter().cloned().collect());
                        if is_del(leaf) {
                            // choosing the deletion of the array itself: the array is gone (its elements with it)
                            let wnow = m.get_winner(uuid).unwrap_or_default();
                            if !is_del(&wnow) {
                                cx.violation("C07", "C07:resolving-to-a-deletion-did-not-delete", sc, &h, json!({"uuid": uuid, "leaf": leaf, "winner_after": wnow, "read_after": read_after}));
                                continue;
                            }
                        } else if sb != sa && !is_del(&winner) {
                            // (when the winner was the deletion of the array, choosing a live version legitimately
                            // brings the array and its live elements back)
                            cx.violation("C07", "C07:array-resolution-changed-membership", sc, &h, json!({"uuid": uuid, "leaf": leaf, "before": before, "after": after}));
                            continue;
                        }
                        let lo: Vec<String> = lo.iter().filter_map(|x| x.as_str().map(|s| s.to_string())).filter(|id| ia.contains(id)).collect();
                        let got: Vec<String> = ia.iter().filter(|id| lo.contains(id)).cloned().collect();
                        if lo != got && !is_del(leaf) {
                            cx.violation("C07", "C07:array-resolution-lost-chosen-order", sc, &h, json!({"uuid": uuid, "leaf": leaf, "chosen_order": lo, "after": after}));
                            continue;
                        }
                    }
                    // propagation: commit, then every replica holding nothing the resolver lacks receives it
                    let o = w.apply(&Op::Commit(r, 1));
                    if !matches!(&o, OpOut::Ok(s) if s != "none") {
                        // a resolution in favour of the winner of an unchanged array stages marker revisions too
                        cx.violation("C07", &format!("C07:resolution-not-committable:{}", kind), sc, &h, json!({"uuid": uuid, "leaf": leaf, "outcome": o.text()}));
                        continue;
                    }
                    let vr = w.view(r);
                    for s in 0..n {
                        if s == r || staged[s] || staged[r] {
                            continue;
                        }
                        // the receiver must know nothing the resolver has not applied
                        if !stores[s].keys().all(|k| stores[r].contains_key(k)) || !applied[s].is_subset(&applied[r]) {
                            continue;
                        }
                        // ... and the resolver must have applied every block it stores: after a travel to an
                        // earlier head set its storage still holds the later blocks, which a sync hands over too
                        if !stores[r].keys().filter_map(|k| k.strip_suffix(".delta")).all(|b| applied[r].contains(b)) {
                            continue;
                        }
                        let o = w.apply(&Op::Sync(s, r));
                        cx.count("propagations");
                        let vs = w.view(s);
                        if !o.is_ok() || vs != vr {
                            cx.violation("C07", &format!("C07:resolution-did-not-propagate:{}", kind), sc, &h,
                                json!({"uuid": uuid, "leaf": leaf, "receiver": s, "outcome": o.text(), "differs": diff_keys(&vs, &vr), "resolver_view": vr, "receiver_view": vs}));
                        }
                    }
                }
            }
        }
        // independent resolutions on two replicas holding the same history
        for r in 0..n {
            for s in (r + 1)..n {
                if staged[r] || staged[s] || stores[r] != stores[s] {
                    continue;
                }
                w0.focus();
                let cr: Vec<String> = w0.reps[r].m.in_conflict().into_iter().collect();
                let cs: Vec<String> = w0.reps[s].m.in_conflict().into_iter().collect();
                if cr.is_empty() || cr != cs {
                    continue;
                }
                for (j, uuid) in cr.iter().enumerate() {
                    let nl = w0.reps[r].m.verif_leafs(uuid).map(|l| l.len()).unwrap_or(0);
                    for kr in 0..nl {
                        for ks in 0..nl {
                            let mut w = sc.build(hist);
                            let ops = [Op::Resolve(r, j, kr), Op::Commit(r, 1), Op::Resolve(s, j, ks), Op::Commit(s, 2)];
                            let mut ok = true;
                            for op in &ops {
                                if !w.apply(op).is_ok() {
                                    ok = false;
                                    break;
                                }
                            }
                            if !ok {
                                continue;
                            }
                            for _ in 0..3 {
                                w.apply(&Op::Sync(r, s));
                                w.apply(&Op::Sync(s, r));
                            }
                            if w.any_dead() {
                                continue;
                            }
                            cx.count("independent_resolution_pairs");
                            let (vr, vs) = (w.view(r), w.view(s));
                            if vr != vs {
                                let mut h = hist.to_vec();
                                h.extend_from_slice(&ops);
                                cx.violation("C07", "C07:independent-resolutions-diverge", sc, &h, json!({"uuid": uuid, "differs": diff_keys(&vr, &vs), "view_r": vr, "view_s": vs}));
                                continue;
                            }
                            // the exchanged resolutions leave a usable replica: the conflict is gone or still has a
                            // winner, every object can be queried, and a document can be submitted and read back
                            w.focus();
                            let mut h = hist.to_vec();
                            h.extend_from_slice(&ops);
                            h.extend_from_slice(&[Op::Sync(r, s), Op::Sync(s, r)]);
                            for uu in w.reps[r].m.get_all_objects() {
                                if w.reps[r].m.get_winner(&uu).is_err() {
                                    cx.violation("C07", "C07:object-without-winner-after-exchanged-resolutions", sc, &h, json!({"uuid": uu, "tree": w.reps[r].m.verif_dump_tree(&uu)}));
                                    break;
                                }
                            }
                            for d in 0..sc.menu.docs.len().min(2) {
                                let mut w2 = sc.build(&h);
                                let o = w2.apply(&Op::Upd(r, d));
                                cx.count("updates_after_exchanged_resolutions");
                                let want = crate::props::c04::expect_tracked(&sc.menu.doc(d), &[]);
                                w2.focus();
                                let rd = read_doc(&w2.reps[r].m);
                                let in_conf = !w2.reps[r].m.in_conflict().is_empty();
                                if !o.is_ok() || (!in_conf && !rd.get("ok").is_some_and(|g| crate::props::c04::same_doc(&want, g))) {
                                    let mut h2 = h.clone();
                                    h2.push(Op::Upd(r, d));
                                    cx.violation("C07", "C07:document-cannot-be-submitted-after-exchanged-resolutions", sc, &h2, json!({"update": o.text(), "read": rd, "expected": want}));
                                    break;
                                }
                            }
                        }
                    }
                }
            }
        }
    }
}

pub fn scenarios(thorough: bool) -> Vec<Scenario> {
    let mut v = vec![];
    v.push(pair_conflict_scenario("pair-conflict-edit-vs-delete", 4, 3, if thorough { &[8, 9, 2] } else { &[9, 2] }, if thorough { 5 } else { 4 },
        &[Op::Resolve(1, 0, 0), Op::Resolve(1, 1, 1), Op::Sync(0, 1)]));
    v.push(pair_conflict_scenario("pair-conflict", 2, 3, if thorough { &[1, 8, 4] } else { &[1, 8] }, if thorough { 5 } else { 4 },
        &[Op::Resolve(1, 0, 0), Op::Resolve(1, 0, 1), Op::Sync(0, 1), Op::Unstage(1)]));
    v.push(pair_scenario("pair-arrays", if thorough { &[2, 3, 4, 9] } else { &[2, 3, 4] }, if thorough { 7 } else { 6 }, &[Op::Resolve(0, 0, 1), Op::Resolve(1, 0, 0)]));
    v.push(trio_scenario("trio", if thorough { 7 } else { 6 }));
    v.push(long_chain_scenario("pair-long-chain", if thorough { 3 } else { 2 }, &[]));
    // edit-vs-delete at equal depth where the live revision wins the tie-break (digest ff3a…), and where it loses (6502…)
    v.push(pair_conflict_scenario("pair-edit-hi-vs-delete", 15, 3, &[9], if thorough { 3 } else { 2 }, &[Op::Resolve(1, 0, 0), Op::Resolve(1, 1, 0), Op::Resolve(1, 1, 1), Op::Sync(0, 1)]));
    v.push(pair_conflict_scenario("pair-edit-lo-vs-delete", 16, 3, &[9], if thorough { 3 } else { 2 }, &[Op::Resolve(1, 0, 0), Op::Resolve(1, 1, 0), Op::Resolve(1, 1, 1), Op::Sync(0, 1)]));
    v.push(tie_scenario("pair-tie", if thorough { 3 } else { 2 }, &[]));
    v.push(three_leaves_scenario("trio-three-leaves", if thorough { 4 } else { 3 }, &[]));
    v.push(array_deleted_scenario("pair-array-deleted-vs-edited-once", 1, if thorough { 4 } else { 3 }, &[]));
    v.push(array_deleted_scenario("pair-array-deleted-vs-edited-twice", 2, if thorough { 4 } else { 3 }, &[]));
    // depth 2 in both tiers: every pair of operations from every prepared state
    v.extend(cross_scenarios_depth(2));
    v.extend(combo_scenarios(thorough));
    v
}

pub fn run(thorough: bool) {
    let mut rep = Report::new("C07", if thorough { "thorough" } else { "quick" }, "model_checking");
    run_h(&mut rep, RunCfg {
        scenarios: scenarios(thorough),
        probes: vec![Arc::new(ResolveProbe)],
        pools: vec![1],
        time_budget_s: if thorough { 2400 } else { 40 },
        max_states: if thorough { 100_000 } else { 20_000 },
        stop_on_violation: false,
    });
    rep.set("rule", json!("in EVERY state in which some replica reports conflicts: for EVERY object in conflict (plain objects and array descriptors) and EVERY live leaf (winner, non-winners, deletion leaves): resolve_as; the object leaves the conflict set; plain object: value == value at the chosen revision, or (deletion leaf) the winner is a deletion and the object is absent from the document; choosing the winner leaves the document unchanged; array: same membership, chosen version's relative order kept. Then commit and sync to every replica that holds nothing the resolver lacks: equal views. For replicas holding the same history: every pair of independent choices, commit, cross-sync to a fix-point: equal views. distinct_nontrivial = distinct documents after a resolution"));
    finalize(&mut rep);
    rep.finish();
}
