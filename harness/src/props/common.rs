//! Helpers shared by the property checks.
use crate::adapter::Store;
use crate::explore::*;
use crate::guard::set_trace;
use crate::report::Report;
use crate::world::*;
use melda::melda::Melda;
use serde_json::{json, Map, Value};
use std::collections::{BTreeMap, BTreeSet};
use std::sync::Arc;
use std::time::Duration;

pub type RawStore = BTreeMap<String, Vec<u8>>;

/// Opens a fresh replica on a copy of the given raw store
pub fn fresh_on(map: &RawStore, tag: &str) -> Result<(Melda, Store), String> {
    set_trace(tag);
    let store = Store::from_map(map.clone());
    let m = open(&store)?;
    Ok((m, store))
}

/// View of a fresh replica opened on a copy of the given raw store
pub fn fresh_view(map: &RawStore, tag: &str) -> Value {
    match fresh_on(map, tag) {
        Ok((m, _s)) => view(&m),
        Err(e) => json!({ "open": e }),
    }
}

pub fn union(a: &RawStore, b: &RawStore) -> RawStore {
    let mut u = a.clone();
    for (k, v) in b {
        u.entry(k.clone()).or_insert_with(|| v.clone());
    }
    u
}

pub fn has_staging(m: &Melda) -> bool {
    crate::guard::call("has_staging", || m.has_staging()).unwrap_or(true)
}

pub fn permutations(n: usize) -> Vec<Vec<usize>> {
    fn rec(cur: &mut Vec<usize>, used: &mut Vec<bool>, n: usize, out: &mut Vec<Vec<usize>>) {
        if cur.len() == n {
            out.push(cur.clone());
            return;
        }
        for i in 0..n {
            if !used[i] {
                used[i] = true;
                cur.push(i);
                rec(cur, used, n, out);
                cur.pop();
                used[i] = false;
            }
        }
    }
    let mut out = vec![];
    rec(&mut vec![], &mut vec![false; n], n, &mut out);
    out
}

pub struct RunCfg {
    pub scenarios: Vec<Scenario>,
    pub probes: Vec<Arc<dyn Probe>>,
    pub pools: Vec<usize>,
    pub time_budget_s: u64,
    pub max_states: usize,
    pub stop_on_violation: bool,
}

/// Runs engine H over the scenarios and accumulates the coverage into the report
pub fn run_h(rep: &mut Report, cfg: RunCfg) {
    let mut scs: Vec<Value> = rep
        .coverage
        .get("scenarios")
        .and_then(|v| v.as_array().cloned())
        .unwrap_or_default();
    let mut outcomes: BTreeSet<String> = BTreeSet::new();
    let mut counters: BTreeMap<String, u64> = BTreeMap::new();
    let mut states = 0u64;
    let mut trans = 0u64;
    for &pool in &cfg.pools {
        for sc in &cfg.scenarios {
            let ex = Explorer {
                sc: sc.clone(),
                probes: cfg.probes.clone(),
                limits: Limits {
                    pool_size: pool,
                    time_budget: Duration::from_secs(cfg.time_budget_s),
                    max_states: cfg.max_states,
                    stop_on_violation: cfg.stop_on_violation,
                    ..Default::default()
                },
            };
            let t_sc = std::time::Instant::now();
            let r = ex.run(false);
            let sc_wall = t_sc.elapsed().as_secs_f64();
            states += r.stats.states as u64;
            trans += r.stats.transitions as u64;
            for (k, v) in &r.cx.counters {
                *counters.entry(k.clone()).or_insert(0) += v;
            }
            outcomes.extend(r.cx.outcomes.iter().cloned());
            let mut sj = stats_json(&r.stats);
            sj["scenario"] = sc.describe();
            sj["rayon_pool_size"] = json!(pool);
            sj["oracle_evaluations"] = json!(r.cx.counters);
            sj["wall_s"] = json!((sc_wall * 10.0).round() / 10.0);
            scs.push(sj);
            for s in r.stats.sample_histories.iter().take(2) {
                rep.push_sample(json!({"scenario": sc.name, "history": s}));
            }
            for s in r.cx.samples.iter().take(2) {
                rep.push_sample(s.clone());
            }
            rep.violations.extend(r.cx.violations);
        }
    }
    rep.add_u64("states", states);
    rep.add_u64("transitions", trans);
    rep.add_u64("traces_validated_against_impl", trans);
    let evals: u64 = counters.values().sum();
    rep.add_u64("evaluations", evals);
    // merge outcome set
    let mut all: BTreeSet<String> = rep
        .coverage
        .get("_outcomes")
        .and_then(|v| serde_json::from_value(v.clone()).ok())
        .unwrap_or_default();
    all.extend(outcomes);
    rep.set("distinct_nontrivial", json!(all.len()));
    rep.set("_outcomes", json!(all));
    let mut oc: BTreeMap<String, u64> = rep
        .coverage
        .get("oracle_evaluations")
        .and_then(|v| serde_json::from_value(v.clone()).ok())
        .unwrap_or_default();
    for (k, v) in counters {
        *oc.entry(k).or_insert(0) += v;
    }
    rep.set("oracle_evaluations", json!(oc));
    let exhaustive = scs.iter().all(|s| s["capped"].is_null());
    rep.set("exhaustive", json!(exhaustive));
    rep.set("scenarios", json!(scs));
}

/// removes internal keys before the report is written
pub fn finalize(rep: &mut Report) {
    rep.coverage.remove("_outcomes");
    rep.set(
        "explanation",
        json!("No separate model: every transition / evaluation is an execution of the real implementation (built from /repo's working tree with the melda_verif hooks), so every explored trace is validated against the implementation by construction."),
    );
}

pub fn diff_keys(a: &Value, b: &Value) -> Vec<String> {
    let mut out = vec![];
    if let (Some(a), Some(b)) = (a.as_object(), b.as_object()) {
        let keys: BTreeSet<&String> = a.keys().chain(b.keys()).collect();
        for k in keys {
            if a.get(k) != b.get(k) {
                out.push(k.clone());
            }
        }
    } else if a != b {
        out.push("<root>".into());
    }
    out
}

pub fn strip_anchors(v: &Value) -> Value {
    let mut v = v.clone();
    if let Some(o) = v.as_object_mut() {
        o.remove("anchors");
    }
    v
}

pub fn obj(v: Value) -> Map<String, Value> {
    v.as_object().unwrap().clone()
}
