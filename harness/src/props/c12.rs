//! C12 — maintenance operations never change the visible document.
use super::common::*;
use crate::explore::*;
use crate::menu::*;
use crate::report::Report;
use crate::world::*;
use serde_json::json;
use std::sync::Arc;

pub struct MaintenanceProbe;

impl Probe for MaintenanceProbe {
    fn on_state(&self, sc: &Scenario, hist: &[Op], cx: &mut Cx) {
        let w0 = sc.build(hist);
        if w0.any_dead() {
            return;
        }
        let n = sc.nrep;
        for r in 0..n {
            w0.focus();
            let m = &w0.reps[r].m;
            let r0 = read_doc(m);
            let v0 = w0.view(r);
            let staged = has_staging(m);
            cx.outcome(sha_hex(r0.to_string().as_bytes()));
            let store = w0.reps[r].store.snapshot();
            let status = m.verif_delta_status();
            let packs = m.verif_applied_packs();
            let nothing_unapplied = store.keys().all(|k| {
                if let Some(id) = k.strip_suffix(".delta") {
                    status.get(id) == Some(&"applied")
                } else if let Some(p) = k.strip_suffix(".pack") {
                    packs.contains(p)
                } else {
                    true
                }
            });
            let mut seqs: Vec<(&str, Vec<Op>, bool)> = vec![];
            if staged {
                seqs.push(("commit", vec![Op::Commit(r, 0)], false));
                seqs.push(("commit-with-info", vec![Op::Commit(r, 2)], false));
                seqs.push(("snapshot-then-commit", vec![Op::Snapshot(r), Op::Commit(r, 0)], false));
                if nothing_unapplied {
                    seqs.push(("commit-then-reload", vec![Op::Commit(r, 0), Op::Reload(r)], false));
                    seqs.push(("commit-then-refresh", vec![Op::Commit(r, 0), Op::Refresh(r)], false));
                }
            } else if nothing_unapplied {
                seqs.push(("refresh", vec![Op::Refresh(r)], true));
                seqs.push(("reload", vec![Op::Reload(r)], true));
                seqs.push(("snapshot-commit-reload", vec![Op::Snapshot(r), Op::Commit(r, 0), Op::Reload(r)], false));
            }
            seqs.push(("snapshot", vec![Op::Snapshot(r)], false));
            seqs.push(("snapshot-twice", vec![Op::Snapshot(r), Op::Snapshot(r)], false));
            for s in 0..n {
                if s != r {
                    seqs.push(("meld", vec![Op::Meld(r, s)], true));
                }
            }
            for (name, ops, whole_view) in seqs {
                let mut w = sc.build(hist);
                let mut h = hist.to_vec();
                let mut ok = true;
                for op in &ops {
                    let o = w.apply(op);
                    h.push(op.clone());
                    if !o.is_ok() {
                        if !matches!(o, OpOut::Panic(_) | OpOut::Hang(_)) {
                            cx.violation("C12", &format!("C12:{}-failed", name), sc, &h, json!({"outcome": o.text()}));
                        }
                        ok = false;
                        break;
                    }
                }
                if !ok {
                    continue;
                }
                cx.count(name);
                w.focus();
                let r1 = read_doc(&w.reps[r].m);
                if r1 != r0 {
                    cx.violation("C12", &format!("C12:{}-changed-the-document", name), sc, &h, json!({"replica": r, "before": r0, "after": r1}));
                    continue;
                }
                if whole_view {
                    let v1 = w.view(r);
                    if v1 != v0 {
                        cx.violation("C12", &format!("C12:{}-changed-the-view", name), sc, &h, json!({"replica": r, "differs": diff_keys(&v0, &v1), "before": v0, "after": v1}));
                    }
                }
            }
        }
    }
}

pub fn scenarios(thorough: bool) -> Vec<Scenario> {
    let mut v = vec![];
    v.push(pair_scenario("pair-arrays", if thorough { &[1, 2, 3, 6, 9] } else { &[2, 3, 6] }, if thorough { 6 } else { 5 },
        &[Op::Resolve(0, 0, 0), Op::Resolve(1, 0, 1), Op::Unstage(0), Op::Snapshot(1)]));
    v.push(pair_conflict_scenario("pair-conflict", 2, 3, if thorough { &[1, 6, 8, 4] } else { &[1, 8] }, if thorough { 5 } else { 4 },
        &[Op::Resolve(1, 0, 0), Op::Resolve(1, 0, 1), Op::Resolve(0, 0, 0), Op::Snapshot(1), Op::ObjPut(1, 1), Op::ObjPut(0, 2), Op::ObjDel(1), Op::ObjRemove(1, 0)]));
    v.push(pair_conflict_scenario("pair-conflict-move", 6, 5, if thorough { &[1, 3, 8] } else { &[1, 8] }, if thorough { 5 } else { 4 }, &[Op::Snapshot(0), Op::ObjPut(1, 1), Op::ObjPut(0, 1)]));
    v.push(pair_scenario("pair-rootkinds", &[8, 9, 12, 14], if thorough { 5 } else { 4 }, &[Op::Resolve(0, 0, 0), Op::Resolve(1, 0, 1)]));
    v.push(trio_scenario("trio", if thorough { 7 } else { 6 }));
    v.push(single_scenario("single-content", content_docs(), if thorough { 4 } else { 3 }, &[Op::Reopen(0), Op::Snapshot(0)]));
    v.extend(cross_scenarios(thorough));
    v.extend(combo_scenarios(thorough));
    v
}

pub fn run(thorough: bool) {
    let mut rep = Report::new("C12", if thorough { "thorough" } else { "quick" }, "model_checking");
    run_h(&mut rep, RunCfg {
        scenarios: scenarios(thorough),
        probes: vec![Arc::new(MaintenanceProbe)],
        pools: vec![1],
        time_budget_s: if thorough { 2400 } else { 40 },
        max_states: if thorough { 200_000 } else { 5_000 },
        stop_on_violation: true,
    });
    // the same exploration with the object cache reduced to one entry: reload and refresh keep that cache, so with
    // the default capacity a re-indexing mistake stays hidden behind cached objects
    std::env::set_var("MELDA_DATA_CACHE_CAP", "1");
    run_h(&mut rep, RunCfg {
        scenarios: {
            let mut v = vec![];
            v.push(single_scenario("single-content-cache1", content_docs(), if thorough { 4 } else { 3 }, &[Op::Reopen(0), Op::Snapshot(0)]));
            v.push(pair_conflict_scenario("pair-conflict-cache1", 2, 3, &[1, 8], if thorough { 4 } else { 3 }, &[Op::Resolve(1, 0, 0), Op::Snapshot(1)]));
            v.push(pair_scenario("pair-arrays-cache1", &[2, 3, 6], if thorough { 5 } else { 4 }, &[Op::Resolve(1, 0, 1), Op::Snapshot(1)]));
            v
        },
        probes: vec![Arc::new(MaintenanceProbe)],
        pools: vec![1],
        time_budget_s: if thorough { 1200 } else { 30 },
        max_states: if thorough { 100_000 } else { 5_000 },
        stop_on_violation: true,
    });
    std::env::remove_var("MELDA_DATA_CACHE_CAP");
    rep.set("rule", json!("in EVERY state (staged changes, object conflicts, array conflicts with ghost elements of deleted objects, deleted descriptors) and for every replica: read() before; then on a rebuilt copy each of: commit / commit with metadata (when staged; includes the automatic resolution of array conflicts), stage_full_snapshot (once, twice, followed by commit), meld from every other replica without refresh, and - when nothing is staged and storage holds nothing the replica has not applied - refresh, reload; compositions commit->reload, commit->refresh, snapshot->commit->reload; read() afterwards must be identical (for refresh/reload/meld the whole view). Three scenarios are explored a second time with the object cache capacity set to 1. distinct_nontrivial = distinct documents"));
    finalize(&mut rep);
    rep.finish();
}
