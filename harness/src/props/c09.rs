//! C09 — commit and meld are atomic with respect to crashes and write failures.
use super::common::*;
use crate::adapter::{WriteOutcome, WriteRec};
use crate::explore::*;
use crate::menu::*;
use crate::refmodel;
use crate::report::Report;
use crate::world::*;
use serde_json::{json, Value};
use std::collections::{BTreeSet, HashSet};
use std::sync::{Arc, Mutex};

pub struct FaultProbe {
    pub max_faults: usize,
    pub meld_subsets_up_to: usize,
    pub seen: Mutex<HashSet<String>>,
}

fn stored_prefix(pre: &RawStore, log: &[WriteRec], k: usize) -> RawStore {
    let mut s = pre.clone();
    for w in log.iter().take(k) {
        if w.outcome == WriteOutcome::Stored {
            s.insert(w.key.clone(), w.bytes.clone());
        }
    }
    s
}

/// a crashed storage must reopen to the state of its causally complete sub-store
/// the crash view shows every head-reachable thing the before view showed, plus more anchors
fn v_blocks_more_than_before(before: &Value, v: &Value) -> bool {
    let a = |x: &Value| -> BTreeSet<String> { x["anchors"].as_array().map(|a| a.iter().filter_map(|s| s.as_str().map(|s| s.to_string())).collect()).unwrap_or_default() };
    let (b, n) = (a(before), a(v));
    n != b && !n.is_empty()
}

fn check_crash_store(sc: &Scenario, h: &[Op], what: &str, store: &RawStore, allowed: Option<(&Value, &Value)>, cx: &mut Cx) -> bool {
    check_crash_store_pre(sc, h, what, store, allowed, None, cx)
}

fn check_crash_store_pre(sc: &Scenario, h: &[Op], what: &str, store: &RawStore, allowed: Option<(&Value, &Value)>, pre_blocks: Option<&BTreeSet<String>>, cx: &mut Cx) -> bool {
    let v = fresh_view(store, "C09 reopen(crash)");
    cx.outcome(sha_hex(v.to_string().as_bytes()));
    if v.get("open").is_some() {
        cx.violation("C09", &format!("C09:{}-crash-state-does-not-open", what), sc, h, json!({"result": v, "keys": store.keys().collect::<Vec<_>>()}));
        return false;
    }
    let sub = refmodel::complete_substore(store);
    let vs = fresh_view(&sub, "C09 reopen(complete substore)");
    if v != vs {
        cx.violation("C09", &format!("C09:{}-crash-state-exposes-incomplete-block", what), sc, h, json!({"differs": diff_keys(&v, &vs), "view": v, "complete_only": vs, "keys": store.keys().collect::<Vec<_>>()}));
        return false;
    }
    if let Some((before, after)) = allowed {
        // previous state, new state - or the previous state plus FOREIGN blocks that were waiting for exactly the
        // pack this commit wrote (content addressing: the same staged objects give the same pack); that is not a
        // mixture of this commit, and the reference comparison above has already decided what may be visible
        let completes_foreign = |st: &RawStore| -> bool {
            let no_new_block = st.keys().filter(|k| k.ends_with(".delta")).all(|k| pre_blocks.map(|p| p.contains(k)).unwrap_or(true));
            no_new_block && v_blocks_more_than_before(before, &v)
        };
        if &v != before && &v != after && !completes_foreign(store) {
            cx.violation("C09", &format!("C09:{}-crash-state-is-a-mixture", what), sc, h, json!({"view": v, "before": before, "after": after}));
            return false;
        }
    }
    true
}

impl FaultProbe {
    fn commit_enumeration(&self, sc: &Scenario, hist: &[Op], r: usize, cx: &mut Cx) {
        let op = Op::Commit(r, 1);
        let mut h = hist.to_vec();
        h.push(op.clone());
        // uninterrupted twin
        let mut w = sc.build(hist);
        let pre = w.reps[r].store.snapshot();
        let read_pre = read_doc(&w.reps[r].m);
        w.reps[r].store.arm(BTreeSet::new());
        let o = w.apply(&op);
        let log = w.reps[r].store.take_log();
        if !matches!(&o, OpOut::Ok(s) if s != "none") {
            return;
        }
        cx.count("commits_enumerated");
        let post = w.reps[r].store.snapshot();
        let twin_reopened = strip_anchors(&fresh_view(&post, "C09 twin reopen"));
        // monitor: a block is written only after every pack it names is stored
        let mut have: BTreeSet<String> = pre.keys().cloned().collect();
        for wr in &log {
            if wr.key.ends_with(".delta") {
                if let Ok(j) = serde_json::from_slice::<Value>(&wr.bytes) {
                    for p in j.get("k").and_then(|k| k.as_array()).cloned().unwrap_or_default() {
                        let pk = format!("{}.pack", p.as_str().unwrap_or("?"));
                        if !have.contains(&pk) {
                            cx.violation("C09", "C09:block-written-before-its-pack", sc, &h, json!({"block": wr.key, "pack": pk, "write_log": log.iter().map(|w| w.key.clone()).collect::<Vec<_>>()}));
                            return;
                        }
                    }
                }
            }
            if wr.outcome != WriteOutcome::Failed {
                have.insert(wr.key.clone());
            }
        }
        // crash after every prefix of the write log
        let before = fresh_view(&pre, "C09 reopen(before)");
        let after = fresh_view(&post, "C09 reopen(after)");
        for k in 0..=log.len() {
            cx.count("commit_crash_points");
            let s = stored_prefix(&pre, &log, k);
            let pre_blocks: BTreeSet<String> = pre.keys().filter(|k| k.ends_with(".delta")).cloned().collect();
            if !check_crash_store_pre(sc, &h, "commit", &s, Some((&before, &after)), Some(&pre_blocks), cx) {
                return;
            }
        }
        // write failures: every single position, then every pair (failure, failure during the retry)
        let nw = log.len();
        let mut plans: Vec<(usize, Option<usize>)> = (0..nw).map(|k| (k, None)).collect();
        if self.max_faults >= 2 {
            for k in 0..nw {
                for j in 0..nw {
                    plans.push((k, Some(j)));
                }
            }
        }
        for (k, j) in plans {
            let mut w = sc.build(hist);
            w.reps[r].store.arm(BTreeSet::from([k]));
            let o = w.apply(&op);
            let log1 = w.reps[r].store.take_log();
            cx.count("commit_fault_runs");
            let failed_issued = log1.iter().any(|x| x.outcome == WriteOutcome::Failed);
            if !failed_issued {
                continue; // the k-th write was never issued in this run
            }
            let detail = |extra: Value| json!({"failed_write": k, "second_failure_in_retry": j, "info": extra});
            if !matches!(o, OpOut::Err(_)) {
                cx.violation("C09", "C09:commit-did-not-report-the-write-failure", sc, &h, detail(json!({"outcome": o.text()})));
                return;
            }
            w.focus();
            if !has_staging(&w.reps[r].m) {
                cx.violation("C09", "C09:staged-changes-lost-after-failed-commit", sc, &h, detail(json!({})));
                return;
            }
            let rd = read_doc(&w.reps[r].m);
            if rd != read_pre {
                cx.violation("C09", "C09:document-changed-by-failed-commit", sc, &h, detail(json!({"before": read_pre, "after": rd})));
                return;
            }
            // the storage left behind by the failed attempt is a legal crash state
            if !check_crash_store(sc, &h, "failed-commit", &w.reps[r].store.snapshot(), None, cx) {
                return;
            }
            if j.is_none() {
                // variant: abandon the staged changes after the failure, make the same edits again, commit
                let is_edit = |o: &Op| matches!(o, Op::Upd(..) | Op::ObjPut(..) | Op::ObjDel(..));
                let suffix_len = hist.iter().rev().take_while(|o| o.replica() != r || is_edit(o)).count();
                let idx = hist.len() - suffix_len;
                let staged_ops: Vec<Op> = hist[idx..].iter().filter(|o| o.replica() == r).cloned().collect();
                let was_clean = {
                    let wpre = sc.build(&hist[..idx]);
                    !wpre.any_dead() && !has_staging(&wpre.reps[r].m)
                };
                if !staged_ops.is_empty() && was_clean {
                    let mut w3 = sc.build(hist);
                    w3.reps[r].store.arm(BTreeSet::from([k]));
                    let _ = w3.apply(&op);
                    w3.reps[r].store.take_log();
                    let mut h3 = h.clone();
                    let mut okk = w3.apply(&Op::Unstage(r)).is_ok();
                    h3.push(Op::Unstage(r));
                    for so in &staged_ops {
                        okk &= w3.apply(so).is_ok();
                        h3.push(so.clone());
                    }
                    let o4 = w3.apply(&op);
                    h3.push(op.clone());
                    cx.count("commit_fault_abandon_and_redo");
                    if okk && matches!(&o4, OpOut::Ok(s) if s != "none") {
                        let re = strip_anchors(&fresh_view(&w3.reps[r].store.snapshot(), "C09 reopen(after abandon and redo)"));
                        if re != twin_reopened {
                            cx.violation("C09", "C09:redo-after-failed-commit-differs-from-uninterrupted-commit", sc, &h3, detail(json!({"differs": diff_keys(&re, &twin_reopened), "redone": re, "uninterrupted": twin_reopened})));
                            return;
                        }
                    } else if okk {
                        cx.violation("C09", "C09:redo-after-failed-commit-did-not-commit", sc, &h3, detail(json!({"outcome": o4.text()})));
                        return;
                    }
                }
            }
            if let Some(j) = j {
                w.reps[r].store.arm(BTreeSet::from([j]));
                let o2 = w.apply(&op);
                let log2 = w.reps[r].store.take_log();
                if log2.iter().any(|x| x.outcome == WriteOutcome::Failed) {
                    if !matches!(o2, OpOut::Err(_)) || !has_staging(&w.reps[r].m) {
                        cx.violation("C09", "C09:second-failure-not-reported-or-stage-lost", sc, &h, detail(json!({"outcome": o2.text()})));
                        return;
                    }
                    if !check_crash_store(sc, &h, "failed-commit", &w.reps[r].store.snapshot(), None, cx) {
                        return;
                    }
                } else if o2.is_ok() {
                    // the retry went through without issuing a j-th write
                    let re = strip_anchors(&fresh_view(&w.reps[r].store.snapshot(), "C09 reopen(after retry)"));
                    if re != twin_reopened {
                        cx.violation("C09", "C09:retry-differs-from-uninterrupted-commit", sc, &h, detail(json!({"differs": diff_keys(&re, &twin_reopened), "retried": re, "uninterrupted": twin_reopened})));
                    }
                    continue;
                }
            }
            w.reps[r].store.arm(BTreeSet::new());
            let o3 = w.apply(&op);
            w.reps[r].store.take_log();
            if !matches!(&o3, OpOut::Ok(s) if s != "none") {
                cx.violation("C09", "C09:retry-after-failed-commit-did-not-commit", sc, &h, detail(json!({"outcome": o3.text()})));
                return;
            }
            w.focus();
            if has_staging(&w.reps[r].m) {
                cx.violation("C09", "C09:still-staged-after-successful-retry", sc, &h, detail(json!({})));
                return;
            }
            let re = strip_anchors(&fresh_view(&w.reps[r].store.snapshot(), "C09 reopen(after retry)"));
            if re != twin_reopened {
                cx.violation("C09", "C09:retry-differs-from-uninterrupted-commit", sc, &h, detail(json!({"differs": diff_keys(&re, &twin_reopened), "retried": re, "uninterrupted": twin_reopened})));
                return;
            }
            // the retried commit propagates: an empty replica that melds from the committer and refreshes shows
            // the same state (the pack left behind by the failed attempt travels with the retried block)
            // (only when the committer has applied every block it knows: after time travel it also forwards the
            // blocks of the abandoned branch, and melded-but-unrefreshed blocks are not forwarded at all)
            let all_applied = w.reps[r].m.verif_delta_status().values().all(|s| *s == "applied")
                && w.reps[r].store.keys().iter().filter_map(|k| k.strip_suffix(".delta").map(|s| s.to_string())).all(|b| w.reps[r].m.verif_delta_status().contains_key(&b));
            if !all_applied {
                continue;
            }
            if let Ok((mut tgt, _)) = fresh_on(&RawStore::new(), "C09 empty meld target") {
                w.focus();
                let src = &w.reps[r].m;
                cx.count("retried_commit_propagations");
                let mo = crate::guard::call("meld", || tgt.meld(src).map(|_| ()).map_err(|e| e.to_string()));
                let ro = crate::guard::call("refresh", || tgt.refresh().map_err(|e| e.to_string()));
                let tv = strip_anchors(&view(&tgt));
                // (compared with what the LIVE committer shows: its storage may hold melded blocks it has not
                // refreshed yet, which meld does not forward)
                let live = strip_anchors(&w.view(r));
                if !matches!(mo, Ok(Ok(()))) || !matches!(ro, Ok(Ok(()))) || tv != live {
                    cx.violation("C09", "C09:retried-commit-does-not-propagate-by-meld", sc, &h, detail(json!({"meld": format!("{:?}", mo), "refresh": format!("{:?}", ro), "differs": diff_keys(&tv, &live), "target": tv, "committer": live})));
                    return;
                }
            }
        }
    }

    fn meld_enumeration(&self, sc: &Scenario, hist: &[Op], r: usize, s: usize, cx: &mut Cx) {
        let op = Op::Meld(r, s);
        let mut h = hist.to_vec();
        h.push(op.clone());
        let mut w = sc.build(hist);
        let pre = w.reps[r].store.snapshot();
        let staged = has_staging(&w.reps[r].m);
        w.reps[r].store.arm(BTreeSet::new());
        let o = w.apply(&op);
        let log = w.reps[r].store.take_log();
        if !o.is_ok() || log.is_empty() {
            return;
        }
        cx.count("melds_enumerated");
        // final state of the uninterrupted run (after refresh when possible)
        let final_view = if staged { None } else {
            w.apply(&Op::Refresh(r));
            Some(w.view(r))
        };
        // crash after every prefix; thorough: every subset of the writes persisted
        let n = log.len();
        for k in 0..=n {
            cx.count("meld_crash_points");
            if !check_crash_store(sc, &h, "meld", &stored_prefix(&pre, &log, k), None, cx) {
                return;
            }
        }
        if n <= self.meld_subsets_up_to {
            for mask in 0u32..(1 << n) {
                cx.count("meld_crash_subsets");
                let mut st = pre.clone();
                for (i, wr) in log.iter().enumerate() {
                    if mask & (1 << i) != 0 && wr.outcome == WriteOutcome::Stored {
                        st.insert(wr.key.clone(), wr.bytes.clone());
                    }
                }
                if !check_crash_store(sc, &h, "meld", &st, None, cx) {
                    return;
                }
            }
        }
        // write failures during meld, then meld again + refresh reaches the uninterrupted result
        for k in 0..n {
            let mut w = sc.build(hist);
            w.reps[r].store.arm(BTreeSet::from([k]));
            let o = w.apply(&op);
            w.reps[r].store.take_log();
            cx.count("meld_fault_runs");
            if matches!(o, OpOut::Panic(_) | OpOut::Hang(_)) {
                continue;
            }
            if !check_crash_store(sc, &h, "failed-meld", &w.reps[r].store.snapshot(), None, cx) {
                return;
            }
            if let Some(fv) = &final_view {
                // a refresh in between must not wedge the replica
                let o1 = w.apply(&Op::Refresh(r));
                // what the live replica shows after the failed meld must be backed by its storage: a replica
                // reopened on that storage shows the same (nothing is staged, everything applicable was refreshed)
                if o1.is_ok() {
                    let live = w.view(r);
                    let reopened = fresh_view(&w.reps[r].store.snapshot(), "C09 reopen(after failed meld + refresh)");
                    cx.count("failed_meld_live_vs_reopened");
                    if live != reopened {
                        cx.violation("C09", "C09:after-a-failed-meld-the-live-replica-shows-what-its-storage-does-not-hold", sc, &h,
                            json!({"failed_write": k, "differs": diff_keys(&live, &reopened), "live": live, "reopened": reopened}));
                        return;
                    }
                }
                let o2 = w.apply(&Op::Sync(r, s));
                if o2.is_ok() {
                    let live = w.view(r);
                    let reopened = fresh_view(&w.reps[r].store.snapshot(), "C09 reopen(after meld retry)");
                    if live != reopened {
                        cx.violation("C09", "C09:after-the-meld-retry-the-live-replica-shows-what-its-storage-does-not-hold", sc, &h,
                            json!({"failed_write": k, "differs": diff_keys(&live, &reopened), "live": live, "reopened": reopened}));
                        return;
                    }
                }
                let v = w.view(r);
                if !o1.is_ok() || !o2.is_ok() || &v != fv {
                    cx.violation("C09", "C09:meld-retry-does-not-reach-the-uninterrupted-state", sc, &h, json!({"failed_write": k, "refresh": o1.text(), "retry": o2.text(), "differs": diff_keys(&v, fv), "view": v, "expected": fv}));
                    return;
                }
            }
        }
    }
}

impl Probe for FaultProbe {
    fn on_state(&self, sc: &Scenario, hist: &[Op], cx: &mut Cx) {
        let w = sc.build(hist);
        if w.any_dead() {
            return;
        }
        let n = sc.nrep;
        let keys: Vec<String> = (0..n).map(|r| sha_hex(replica_state(&w.reps[r], &sc.key_opts).to_string().as_bytes())).collect();
        let staged: Vec<bool> = (0..n).map(|r| has_staging(&w.reps[r].m)).collect();
        drop(w);
        for r in 0..n {
            if staged[r] && self.seen.lock().unwrap().insert(format!("commit|{}", keys[r])) {
                self.commit_enumeration(sc, hist, r, cx);
            }
            for s in 0..n {
                if s != r && self.seen.lock().unwrap().insert(format!("meld|{}|{}", keys[r], keys[s])) {
                    self.meld_enumeration(sc, hist, r, s, cx);
                }
            }
        }
    }
}

pub fn scenarios(thorough: bool) -> Vec<Scenario> {
    let mut v = vec![];
    v.push(pair_scenario("pair-arrays", if thorough { &[1, 2, 3, 6, 9] } else { &[2, 3, 6] }, if thorough { 6 } else { 5 },
        &[Op::Resolve(0, 0, 0), Op::Resolve(1, 0, 1), Op::Snapshot(1), Op::Meld(0, 1), Op::Meld(1, 0)]));
    v.push(pair_conflict_scenario("pair-conflict", 2, 3, if thorough { &[1, 6, 8, 4] } else { &[1, 8] }, if thorough { 5 } else { 4 },
        &[Op::Resolve(1, 0, 0), Op::Resolve(1, 0, 1), Op::Meld(0, 1)]));
    v.push(single_scenario("single-kinds", kind_docs(), if thorough { 3 } else { 2 }, &[Op::Snapshot(0)]));
    v.push(trio_scenario("trio", if thorough { 7 } else { 5 }));
    v.push(trio_merge_scenario("trio-merge", if thorough { 3 } else { 2 }, &[]));
    v.extend(cross_scenarios(thorough));
    v.extend(combo_scenarios(thorough));
    v
}

pub fn run(thorough: bool) {
    let mut rep = Report::new("C09", if thorough { "thorough" } else { "quick" }, "fault_enumeration");
    run_h(&mut rep, RunCfg {
        scenarios: scenarios(thorough),
        probes: vec![Arc::new(FaultProbe { max_faults: 2, meld_subsets_up_to: if thorough { 8 } else { 6 }, seen: Mutex::new(HashSet::new()) })],
        pools: vec![1],
        time_budget_s: if thorough { 2400 } else { 45 },
        max_states: if thorough { 100_000 } else { 4_000 },
        stop_on_violation: true,
    });
    rep.set("rule", json!("for EVERY distinct (replica state) with staged changes reached by the explored histories: the write log w1..wW of commit() is recorded on an instrumented adapter; crash = EVERY prefix of the log persisted (item writes are atomic), reopened: must open, equal the state of its causally complete sub-store, and be either the complete previous or the complete new state; monitor: a block write is issued only after every pack it names is stored; fault = fail write k for EVERY k, then EVERY pair (k, j during the retry): commit reports an error, staged changes and document unchanged, the storage left behind is a legal crash state, the retry commits and reopens to the same state as the uninterrupted twin. For EVERY distinct (target state, source state) pair: meld's write log: every prefix and (up to the stated size) EVERY subset persisted reopen to their complete sub-store state; failing each write then melding again and refreshing reaches the uninterrupted result. distinct_nontrivial = distinct reopened crash states"));
    rep.assume("item writes are atomic (as the property states); durability below the adapter (fsync) is outside the library");
    finalize(&mut rep);
    rep.finish();
}
