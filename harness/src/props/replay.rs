//! Replays a violation artefact without the explorer: rebuilds the history on fresh replicas, prints
//! every operation's outcome and the final views, then re-evaluates the oracle of the property on exactly
//! that history (state probe on the history and on the history without its last operation, transition
//! probe on the last operation). Exit 1 + VIOLATION line if the same signature is reported again, exit 0
//! if it is not reproduced.
use crate::explore::{Cx, Probe, Scenario};
use crate::menu;
use crate::world::{KeyOpts, Menu, Op, World};
use serde_json::Value;
use std::collections::HashSet;
use std::sync::{Arc, Mutex};

fn probes_for(p: &str) -> Vec<Arc<dyn Probe>> {
    use crate::props::*;
    match p {
        "C01" => vec![Arc::new(c01::ConvergeProbe { deviations: true })],
        "C02" => vec![Arc::new(c02::CausalProbe { max_missing: 6, max_lattice: 9, seen: Mutex::new(HashSet::new()) })],
        "C03" => vec![Arc::new(c03::ReopenProbe)],
        "C04" => vec![Arc::new(c04::ReadBackProbe)],
        "C05" => vec![Arc::new(c05::WinnerProbe)],
        "C06" => vec![Arc::new(c06::MergeProbe)],
        "C07" => vec![Arc::new(c07::ResolveProbe)],
        "C09" => vec![Arc::new(c09::FaultProbe { max_faults: 2, meld_subsets_up_to: 8, seen: Mutex::new(HashSet::new()) })],
        "C11" => vec![Arc::new(c11::StorageMonitor), Arc::new(c11::DamagedSourceProbe::default())],
        "C12" => vec![Arc::new(c12::MaintenanceProbe)],
        "C13" => vec![Arc::new(c13::GraphProbe)],
        "C14" => vec![Arc::new(c14::TravelProbe)],
        "C15" => vec![Arc::new(c15::StageProbe)],
        "C16" => vec![Arc::new(c16::StoredVersionsProbe)],
        _ => vec![],
    }
}

pub fn replay(path: &str) {
    let s = std::fs::read_to_string(path).expect("cannot read replay file");
    let v: Value = serde_json::from_str(&s).expect("replay file is not JSON");
    let prop = v["property"].as_str().unwrap_or("?").to_string();
    let sig = v["signature"].as_str().unwrap_or("?").to_string();
    println!("replaying {} violation, signature {}", prop, sig);
    if let Some(input) = v["detail"].get("input") {
        println!("input: {}", input);
    }
    if let Some(a) = v["detail"].get("engine_s_replay").and_then(|a| a.as_array()) {
        let exe = format!("{}/engine_s/target/release/engine_s", crate::report::verif_root());
        let args: Vec<String> = a.iter().map(|x| x.as_str().map(|s| s.to_string()).unwrap_or_else(|| x.to_string())).collect();
        let out = std::process::Command::new(exe).arg("--replay").args(&args).output().expect("cannot run engine S");
        let so = String::from_utf8_lossy(&out.stdout).to_string();
        print!("{}", so);
        if so.contains("replay: FAILED") {
            println!("VIOLATION property={} replay={}", prop, path);
            std::process::exit(1);
        }
        println!("not reproduced");
        std::process::exit(0);
    }
    let hist: Vec<Op> = serde_json::from_value(v["history"].clone()).unwrap_or_default();
    let has_menu = v["detail"].get("menu").is_some();
    if hist.is_empty() || !has_menu {
        // component-level finding (input-driven): re-run the quick check of the property and look for the signature
        println!("no operation history in this artefact: re-running the quick check of {}", prop);
        let exe = std::env::current_exe().unwrap();
        let out = std::process::Command::new(exe).arg(&prop).args(["--tier", "quick"]).env("MV_NO_EVIDENCE", "1").output().expect("cannot re-run check");
        let so = String::from_utf8_lossy(&out.stdout).to_string();
        let again = so.lines().any(|l| l.starts_with("VIOLATION") && l.contains(&sig));
        println!("recorded detail: {}", serde_json::to_string_pretty(&v["detail"]).unwrap_or_default().chars().take(3000).collect::<String>());
        if again {
            println!("VIOLATION property={} replay={}", prop, path);
            std::process::exit(1);
        }
        println!("not reproduced");
        std::process::exit(0);
    }
    let docs: Vec<Value> = v["detail"]["menu"]["docs"].as_array().cloned().unwrap_or_default();
    let infos: Vec<Option<Value>> = v["detail"]["menu"]["infos"].as_array().map(|a| a.iter().map(|x| if x.is_null() { None } else { Some(x.clone()) }).collect()).unwrap_or_else(menu::infos);
    let nrep = v["detail"]["menu"]["replicas"].as_u64().unwrap_or(2) as usize;
    let m = Arc::new(Menu { docs, infos });
    let order = if v["detail"]["menu"]["hash_order_reversed"].as_bool().unwrap_or(false) { Some(melda::verif_hooks::order::Mode::Reverse) } else { None };
    melda::verif_hooks::order::set_thread_source(order.clone().map(melda::verif_hooks::order::Source::new));
    let mut w = World::new(nrep, m.clone());
    for op in &hist {
        let o = w.apply(op);
        println!("  {:<28} -> {}", op.short(), o.text().chars().take(200).collect::<String>());
    }
    for r in 0..nrep {
        println!("view[{}] = {}", r, w.view(r));
    }
    drop(w);
    // re-evaluate the oracle
    let sc = Scenario { name: "replay".into(), nrep, menu: m, prologue: vec![], alphabet: vec![], key_opts: KeyOpts::default(), max_depth: 0, track: true, order };
    let mut cx = Cx::default();
    let probes = probes_for(&prop);
    for p in &probes {
        p.on_state(&sc, &hist, &mut cx);
        if let Some((last, pre_hist)) = hist.split_last() {
            p.on_state(&sc, pre_hist, &mut cx);
            let pre = sc.build(pre_hist);
            let mut post = sc.build(pre_hist);
            let out = post.apply(last);
            p.on_transition(&sc, pre_hist, last, &pre, &out, &post, &mut cx);
        }
    }
    let sigs: Vec<&String> = cx.violations.iter().map(|x| &x.signature).collect();
    println!("oracle re-evaluation reports: {:?}", sigs);
    if prop == "C08" {
        // C08 artefacts carry the failing call in detail.call; the printed outcomes above show panics / hangs
        let failing = hist.last().map(|_| true).unwrap_or(false);
        let _ = failing;
    }
    if cx.violations.iter().any(|x| x.signature == sig) || (probes.is_empty() && prop != "C08") {
        println!("VIOLATION property={} replay={}", prop, path);
        std::process::exit(1);
    }
    if prop == "C08" {
        // re-apply the recorded call on the recorded state under the watchdog
        let call = v["detail"]["call"].as_str().unwrap_or("").to_string();
        let full = crate::props::c08::full_alphabet(nrep, sc.menu.docs.len());
        let mut ex = crate::guard::Exec::new(1);
        for op in full.into_iter().filter(|o| o.short() == call) {
            let (sc2, h2) = (sc.clone(), hist.clone());
            let r = ex.run(move || {
                let mut w = sc2.build(&h2);
                let o = w.apply(&op);
                let v = w.view(op.replica());
                (o.text(), v.to_string().contains("panic"))
            });
            match r {
                crate::guard::Outcome::Done((o, view_panics)) => {
                    println!("  {} -> {}", call, o);
                    if o.starts_with("panic") || o.starts_with("hang") || view_panics {
                        println!("VIOLATION property={} replay={}", prop, path);
                        std::process::exit(1);
                    }
                }
                _ => {
                    println!("  {} did not return", call);
                    println!("VIOLATION property={} replay={}", prop, path);
                    std::process::exit(1);
                }
            }
        }
        // read-type findings
        let w = sc.build(&hist);
        for r in 0..nrep {
            if w.view(r).to_string().contains("panic") {
                println!("VIOLATION property={} replay={}", prop, path);
                std::process::exit(1);
            }
        }
    }
    println!("not reproduced");
    std::process::exit(0);
}
