//! Replays a violation artefact without the explorer: rebuilds the history on fresh replicas and
//! prints every operation's outcome and the final views.
use crate::menu;
use crate::world::{Op, World};
use serde_json::Value;

pub fn replay(path: &str) {
    let s = std::fs::read_to_string(path).expect("cannot read replay file");
    let v: Value = serde_json::from_str(&s).expect("replay file is not JSON");
    let prop = v["property"].as_str().unwrap_or("?").to_string();
    println!("replaying {} violation, signature {}", prop, v["signature"]);
    if let Some(input) = v["detail"].get("input") {
        println!("input: {}", input);
    }
    if let Some(a) = v["detail"].get("engine_s_replay").and_then(|a| a.as_array()) {
        let exe = format!("{}/engine_s/target/release/engine_s", crate::report::verif_root());
        let args: Vec<String> = a.iter().map(|x| x.as_str().map(|s| s.to_string()).unwrap_or_else(|| x.to_string())).collect();
        let st = std::process::Command::new(exe).arg("--replay").args(&args).status();
        println!("engine S replay exit: {:?}", st);
        println!("VIOLATION property={} replay={}", prop, path);
        std::process::exit(1);
    }
    let hist: Vec<Op> = serde_json::from_value(v["history"].clone()).unwrap_or_default();
    if !hist.is_empty() || v["detail"].get("menu").is_some() {
        let docs: Vec<Value> = v["detail"]["menu"]["docs"].as_array().cloned().unwrap_or_default();
        let nrep = v["detail"]["menu"]["replicas"].as_u64().unwrap_or(2) as usize;
        let m = menu::menu(docs);
        let mut w = World::new(nrep, m);
        for op in &hist {
            let o = w.apply(op);
            println!("  {:<28} -> {}", op.short(), o.text());
        }
        for r in 0..nrep {
            println!("view[{}] = {}", r, w.view(r));
        }
    }
    println!("recorded detail: {}", serde_json::to_string_pretty(&v["detail"]).unwrap());
    println!("VIOLATION property={} replay={}", prop, path);
    std::process::exit(1);
}
