//! C14 — time travel shows exactly the chosen past state.
use super::common::*;
use crate::explore::*;
use crate::guard::{call, set_trace};
use crate::menu::*;
use crate::report::Report;
use crate::world::*;
use melda::melda::Melda;
use serde_json::{json, Value};
use std::sync::Arc;

pub struct TravelProbe;

/// every (uuid, rev) of the recorded snapshot must still give the same value and parent
fn check_values(m: &Melda, recorded: &Value) -> Option<Value> {
    let rec = recorded.as_object()?;
    for (uuid, revs) in rec {
        for (rev, vp) in revs.as_object()? {
            let v = match call("get_value", || m.get_value(uuid, Some(rev))) {
                Ok(Ok(v)) => Value::Object(v),
                Ok(Err(e)) => json!(format!("err:{}", e)),
                Err(p) => json!(format!("panic:{}", p)),
            };
            let p = match call("get_parent_revision", || m.get_parent_revision(uuid, rev)) {
                Ok(Ok(p)) => json!(p),
                Ok(Err(e)) => json!(format!("err:{}", e)),
                Err(p) => json!(format!("panic:{}", p)),
            };
            if v != vp[0] || p != vp[1] {
                return Some(json!({"uuid": uuid, "revision": rev, "value": v, "parent": p, "recorded_value": vp[0], "recorded_parent": vp[1]}));
            }
        }
    }
    None
}

impl Probe for TravelProbe {
    fn on_state(&self, sc: &Scenario, hist: &[Op], cx: &mut Cx) {
        let w0 = sc.build(hist);
        if w0.any_dead() {
            return;
        }
        for r in 0..sc.nrep {
            w0.focus();
            if has_staging(&w0.reps[r].m) {
                continue;
            }
            let store = w0.reps[r].store.snapshot();
            let latest = fresh_view(&store, "C14 fresh(store)");
            let nheads = w0.reps[r].heads.len();
            for k in 0..nheads {
                let rec = &w0.reps[r].head_views[k];
                // history only accumulates: the recorded revisions are still retrievable now
                w0.focus();
                // (only for head sets that belong to the currently loaded history: after travelling
                // back and committing a new branch the abandoned branch is not loaded)
                let status = w0.reps[r].m.verif_delta_status();
                let loaded = w0.reps[r].heads[k].iter().all(|b| status.get(b) == Some(&"applied"));
                if loaded {
                    cx.count("revisions_still_retrievable");
                    if let Some(d) = check_values(&w0.reps[r].m, &rec["values"]) {
                        cx.violation("C14", "C14:past-revision-changed-in-later-state", sc, hist, json!({"replica": r, "head_set": w0.reps[r].heads[k], "mismatch": d}));
                        continue;
                    }
                }
                let mut w = sc.build(hist);
                let op = Op::Travel(r, k);
                let o = w.apply(&op);
                let mut h = hist.to_vec();
                h.push(op.clone());
                cx.count("travels");
                if !o.is_ok() {
                    if !matches!(o, OpOut::Panic(_) | OpOut::Hang(_)) {
                        cx.violation("C14", "C14:reload_until-failed", sc, &h, json!({"replica": r, "head_set": w0.reps[r].heads[k], "outcome": o.text()}));
                    }
                    continue;
                }
                let v = w.view(r);
                cx.outcome(sha_hex(v.to_string().as_bytes()));
                if v != rec["view"] {
                    cx.violation("C14", "C14:travelled-view-differs-from-recorded", sc, &h,
                        json!({"replica": r, "head_set": w0.reps[r].heads[k], "differs": diff_keys(&v, &rec["view"]), "view": v, "recorded": rec["view"]}));
                    continue;
                }
                w.focus();
                let t = trees(&w.reps[r].m);
                if t != rec["trees"] {
                    cx.violation("C14", "C14:travelled-trees-differ-from-recorded", sc, &h, json!({"replica": r, "head_set": w0.reps[r].heads[k], "trees": t, "recorded": rec["trees"]}));
                    continue;
                }
                if let Some(d) = check_values(&w.reps[r].m, &rec["values"]) {
                    cx.violation("C14", "C14:past-revision-changed-after-travel", sc, &h, json!({"replica": r, "head_set": w0.reps[r].heads[k], "mismatch": d}));
                    continue;
                }
                // new_until on a copy of the storage shows the same
                {
                    set_trace("C14 new_until");
                    let st = crate::adapter::Store::from_map(store.clone());
                    let ids = to_delta_ids(&w0.reps[r].heads[k]);
                    let ad = st.adapter();
                    cx.count("new_until");
                    match call("new_until", move || Melda::new_until(ad, &ids)) {
                        Ok(Ok(m2)) => {
                            let v2 = view(&m2);
                            if v2 != rec["view"] {
                                cx.violation("C14", "C14:new_until-differs-from-recorded", sc, &h, json!({"replica": r, "head_set": w0.reps[r].heads[k], "differs": diff_keys(&v2, &rec["view"])}));
                            }
                        }
                        Ok(Err(e)) => cx.violation("C14", "C14:new_until-failed", sc, &h, json!({"error": e.to_string()})),
                        Err(p) => cx.violation("C14", "C14:new_until-panicked", sc, &h, json!({"panic": p})),
                    }
                }
                // a plain reload afterwards returns to the latest state
                let o = w.apply(&Op::Reload(r));
                h.push(Op::Reload(r));
                cx.count("reload_after_travel");
                let v = w.view(r);
                if !o.is_ok() || v != latest {
                    cx.violation("C14", "C14:reload-after-travel-is-not-the-latest-state", sc, &h, json!({"replica": r, "outcome": o.text(), "differs": diff_keys(&v, &latest), "view": v, "latest": latest}));
                }
            }
        }
    }
}

pub fn scenarios(thorough: bool) -> Vec<Scenario> {
    let mut v = vec![];
    v.push(pair_scenario("pair-arrays", if thorough { &[1, 2, 3, 6, 8] } else { &[2, 3, 8] }, if thorough { 6 } else { 5 },
        &[Op::Resolve(0, 0, 0), Op::Resolve(1, 0, 1), Op::Travel(0, 0), Op::Travel(0, 1), Op::Travel(1, 1), Op::Travel(1, 2), Op::Reload(0), Op::Reload(1)]));
    v.push(pair_conflict_scenario("pair-conflict", 2, 3, if thorough { &[1, 8, 4] } else { &[1, 8] }, if thorough { 5 } else { 4 },
        &[Op::Resolve(1, 0, 0), Op::Resolve(1, 0, 1), Op::Travel(1, 0), Op::Travel(1, 1), Op::Travel(1, 2), Op::Reload(1), Op::Sync(0, 1)]));
    v.push(single_scenario("single-chains", vec![arr_docs()[0].clone(), arr_docs()[1].clone(), arr_docs()[2].clone(), arr_docs()[3].clone(), arr_docs()[8].clone()], if thorough { 6 } else { 5 },
        &[Op::Travel(0, 0), Op::Travel(0, 1), Op::Travel(0, 2), Op::Reload(0), Op::Snapshot(0)]));
    v.push(diamond_scenario("pair-diamond", &[1, 8], if thorough { 4 } else { 3 },
        &[Op::Travel(0, 0), Op::Travel(0, 1), Op::Travel(0, 2), Op::Travel(0, 3), Op::Travel(0, 4), Op::Reload(0), Op::ObjPut(0, 1)]));
    v.push(many_commits_scenario("pair-many-commits", if thorough { 3 } else { 2 }, &[Op::Travel(0, 2), Op::Travel(0, 8), Op::Travel(0, 9), Op::Travel(0, 10), Op::Travel(1, 3), Op::Travel(1, 8), Op::Reload(0), Op::Reload(1)]));
    v.push(same_edit_scenario("pair-same-edit", if thorough { 4 } else { 3 }, &[Op::Travel(0, 2), Op::Travel(0, 3), Op::Travel(0, 4), Op::Travel(1, 3), Op::Travel(1, 4)]));
    for sc in v.iter_mut() {
        sc.track = true;
        sc.key_opts.heads = true;
    }
    v.extend(cross_scenarios(thorough));
    v.extend(combo_scenarios(thorough));
    v
}

pub fn run(thorough: bool) {
    let mut rep = Report::new("C14", if thorough { "thorough" } else { "quick" }, "model_checking");
    for cap in ["1", "16"] {
        // capacities are read from the environment when a replica is constructed; no worker thread
        // is running at this point
        std::env::set_var("MELDA_ARRAYDESCRIPTORS_CACHE_CAP", cap);
        std::env::set_var("MELDA_DATA_CACHE_CAP", cap);
        let mut scs = scenarios(thorough);
        for sc in scs.iter_mut() {
            sc.name = format!("{}[cache_cap={}]", sc.name, cap);
        }
        run_h(&mut rep, RunCfg {
            scenarios: scs,
            probes: vec![Arc::new(TravelProbe)],
            pools: vec![1],
            time_budget_s: if thorough { 1500 } else { 25 },
            max_states: if thorough { 100_000 } else { 8_000 },
            stop_on_violation: true,
        });
    }
    rep.set("rule", json!("the harness records, for every replica, every head set it ever had while nothing was staged, with the view, the full revision-tree dumps and get_value/get_parent_revision of every revision at that moment. In EVERY later state and for EVERY recorded head set (single heads and multi-head sets after syncs, commits made after time travel included): reload_until(H) -> view, tree dumps and every recorded (value, parent) equal the record; Melda::new_until on a copy of the storage shows the same view; a plain reload() afterwards equals a fresh open of the storage; in non-travelled states every recorded revision is still retrievable with the same value and parent. Whole exploration repeated with cache capacities 1 and 16. distinct_nontrivial = distinct travelled views"));
    finalize(&mut rep);
    rep.finish();
}
