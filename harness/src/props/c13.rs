//! C13 — the commit graph is well formed and reads back unchanged.
use super::common::*;
use crate::explore::*;
use crate::menu::*;
use crate::refmodel;
use crate::report::Report;
use crate::world::*;
use serde_json::{json, Value};
use std::collections::BTreeSet;
use std::sync::Arc;

pub struct GraphProbe;

fn check_replica_graph(sc: &Scenario, hist: &[Op], w: &World, r: usize, cx: &mut Cx) {
    w.focus();
    let m = &w.reps[r].m;
    let status = m.verif_delta_status();
    let store = w.reps[r].store.snapshot();
    let applied: BTreeSet<String> = status.iter().filter(|(_, s)| **s == "applied").map(|(k, _)| k.clone()).collect();
    let mut named: BTreeSet<String> = BTreeSet::new();
    for id in &applied {
        let Some(raw) = store.get(&format!("{}.delta", id)) else {
            cx.violation("C13", "C13:applied-block-not-in-storage", sc, hist, json!({"replica": r, "block": id}));
            return;
        };
        let Some(b) = refmodel::parse_block(&format!("{}.delta", id), raw) else {
            cx.violation("C13", "C13:applied-block-invalid", sc, hist, json!({"replica": r, "block": id}));
            return;
        };
        for p in &b.parents {
            cx.count("ancestor_closure_checks");
            if !applied.contains(p) {
                cx.violation("C13", "C13:applied-set-not-ancestor-closed", sc, hist, json!({"replica": r, "block": id, "missing_parent": p}));
                return;
            }
            let (pi, _) = refmodel::parse_block_name(p).unwrap();
            if pi >= b.index {
                cx.violation("C13", "C13:index-not-greater-than-parent", sc, hist, json!({"replica": r, "block": id, "parent": p}));
                return;
            }
            named.insert(p.clone());
        }
    }
    let heads: BTreeSet<String> = applied.difference(&named).cloned().collect();
    let anchors = anchors_of(m);
    cx.count("heads_checks");
    if anchors != heads {
        cx.violation("C13", "C13:anchors-differ-from-heads-of-applied-graph", sc, hist, json!({"replica": r, "anchors": anchors, "heads_by_reference": heads}));
        return;
    }
    // every known block reads back as its raw file says
    for (id, _) in &status {
        let Some(raw) = store.get(&format!("{}.delta", id)) else { continue };
        let Some(b) = refmodel::parse_block(&format!("{}.delta", id), raw) else {
            cx.violation("C13", "C13:known-block-invalid-by-reference", sc, hist, json!({"replica": r, "block": id}));
            return;
        };
        cx.count("readback_checks");
        // the identifier the replica reports parses back to itself
        let parsed = melda::melda::DeltaId::from(id);
        if !parsed.as_ref().is_ok_and(|p| p.to_string() == *id) {
            cx.violation("C13", "C13:block-identifier-does-not-parse-back", sc, hist, json!({"replica": r, "block": id, "parsed": parsed.map(|p| p.to_string()).map_err(|e| e.to_string())}));
            return;
        }
        let d = match m.get_delta(&parsed.unwrap()) {
            Ok(Some(d)) => d,
            _ => {
                cx.violation("C13", "C13:get_delta-failed", sc, hist, json!({"replica": r, "block": id}));
                return;
            }
        };
        let parents: BTreeSet<String> = d.parents.clone().unwrap_or_default().iter().map(|p| p.to_string()).collect();
        let packs: BTreeSet<String> = d.packs.clone().unwrap_or_default();
        let info = d.info.clone().map(Value::Object);
        let raw_parents: BTreeSet<String> = b.parents.iter().cloned().collect();
        let raw_packs: BTreeSet<String> = b.packs.iter().cloned().collect();
        if parents != raw_parents || packs != raw_packs || info != b.info || d.id.as_ref().map(|i| i.to_string()) != Some(id.clone()) {
            cx.violation("C13", "C13:block-readback-differs-from-raw-file", sc, hist,
                json!({"replica": r, "block": id, "parents": parents, "raw_parents": raw_parents, "packs": packs, "raw_packs": raw_packs, "info": info, "raw_info": b.info}));
            return;
        }
    }
}

impl Probe for GraphProbe {
    fn needs_pre(&self) -> bool {
        true
    }
    fn on_state(&self, sc: &Scenario, hist: &[Op], cx: &mut Cx) {
        let w = sc.build(hist);
        if w.any_dead() {
            return;
        }
        for r in 0..sc.nrep {
            check_replica_graph(sc, hist, &w, r, cx);
        }
        // a commit whose block write fails creates no block: heads unchanged; the retry's parents are the
        // heads from before the failed attempt
        for r in 0..sc.nrep {
            if !has_staging(&w.reps[r].m) {
                continue;
            }
            let heads_before = anchors_of(&w.reps[r].m);
            // count the writes of an undisturbed commit
            let mut w1 = sc.build(hist);
            w1.reps[r].store.arm(BTreeSet::new());
            if !w1.apply(&Op::Commit(r, 1)).is_ok() {
                continue;
            }
            let nwrites = w1.reps[r].store.take_log().len();
            for k in 0..nwrites {
                let mut w2 = sc.build(hist);
                w2.reps[r].store.arm(BTreeSet::from([k]));
                let o = w2.apply(&Op::Commit(r, 1));
                w2.reps[r].store.take_log();
                if !matches!(o, OpOut::Err(_)) {
                    continue;
                }
                cx.count("failed_commit_checks");
                w2.focus();
                let heads_after_failure = anchors_of(&w2.reps[r].m);
                let mut h = hist.to_vec();
                h.push(Op::Commit(r, 1));
                if heads_after_failure != heads_before {
                    cx.violation("C13", "C13:failed-commit-moved-the-heads", sc, &h, json!({"replica": r, "failed_write": k, "heads_before": heads_before, "heads_after_failed_commit": heads_after_failure}));
                    return;
                }
                check_replica_graph(sc, &h, &w2, r, cx);
                w2.reps[r].store.arm(BTreeSet::new());
                let o2 = w2.apply(&Op::Commit(r, 1));
                w2.reps[r].store.take_log();
                if let OpOut::Ok(id) = &o2 {
                    if id != "none" {
                        h.push(Op::Commit(r, 1));
                        let store = w2.reps[r].store.snapshot();
                        if let Some(b) = store.get(&format!("{}.delta", id)).and_then(|raw| refmodel::parse_block(&format!("{}.delta", id), raw)) {
                            let parents: BTreeSet<String> = b.parents.iter().cloned().collect();
                            if parents != heads_before {
                                cx.violation("C13", "C13:retried-commit-has-wrong-parents", sc, &h, json!({"replica": r, "failed_write": k, "parents": parents, "heads_before_the_failed_attempt": heads_before}));
                                return;
                            }
                        } else {
                            cx.violation("C13", "C13:committed-block-invalid-by-reference", sc, &h, json!({"replica": r, "block": id}));
                            return;
                        }
                        check_replica_graph(sc, &h, &w2, r, cx);
                    }
                }
            }
        }
    }
    fn on_transition(&self, sc: &Scenario, hist: &[Op], op: &Op, pre: &World, out: &OpOut, post: &World, cx: &mut Cx) {
        let (Op::Commit(r, i), OpOut::Ok(ret)) = (op, out) else { return };
        let mut h = hist.to_vec();
        h.push(op.clone());
        let r = *r;
        let before = pre.reps[r].store.snapshot();
        let after = post.reps[r].store.snapshot();
        let new_keys: Vec<&String> = after.keys().filter(|k| !before.contains_key(*k)).collect();
        if ret == "none" {
            cx.count("noop_commit_checks");
            if !new_keys.is_empty() {
                cx.violation("C13", "C13:commit-returned-none-but-wrote", sc, &h, json!({"new_keys": new_keys}));
            }
            return;
        }
        cx.count("commit_checks");
        cx.outcome(ret.clone());
        let pre_anchors = anchors_of(&pre.reps[r].m);
        // content addressing makes commits idempotent: an identical block / pack may already be in
        // storage (melded from a replica that made the same commit); then nothing new is written
        let id = ret.clone();
        let key = format!("{}.delta", id);
        if ret.contains(',') || !after.contains_key(&key) {
            cx.violation("C13", "C13:commit-did-not-create-exactly-one-block", sc, &h, json!({"new_keys": new_keys, "returned": ret}));
            return;
        }
        let Some(b) = refmodel::parse_block(&key, &after[&key]) else {
            cx.violation("C13", "C13:committed-block-invalid-by-reference", sc, &h, json!({"block": key}));
            return;
        };
        let allowed: BTreeSet<String> = std::iter::once(key.clone()).chain(b.packs.iter().map(|p| format!("{}.pack", p))).collect();
        if new_keys.iter().any(|k| !allowed.contains(*k)) || b.packs.len() > 1 {
            cx.violation("C13", "C13:commit-wrote-unexpected-items", sc, &h, json!({"new_keys": new_keys, "block": id, "packs": b.packs}));
            return;
        }
        let parents: BTreeSet<String> = b.parents.iter().cloned().collect();
        if parents != pre_anchors {
            cx.violation("C13", "C13:parents-differ-from-previous-heads", sc, &h, json!({"block": id, "parents": parents, "previous_heads": pre_anchors}));
            return;
        }
        let post_anchors = anchors_of(&post.reps[r].m);
        if post_anchors != BTreeSet::from([id.clone()]) || ret != &id {
            cx.violation("C13", "C13:new-block-is-not-the-only-head", sc, &h, json!({"block": id, "heads_after": post_anchors, "returned": ret}));
            return;
        }
        // the info and pack list are what was passed / produced
        let want_info = sc.menu.info(*i).map(Value::Object);
        if b.info != want_info {
            cx.violation("C13", "C13:info-differs-from-argument", sc, &h, json!({"block": id, "raw_info": b.info, "argument": want_info}));
        }
        for p in &b.packs {
            if !after.contains_key(&format!("{}.pack", p)) {
                cx.violation("C13", "C13:named-pack-not-in-storage", sc, &h, json!({"block": id, "pack": p}));
            }
        }
    }
}

pub fn scenarios(thorough: bool) -> Vec<Scenario> {
    let mut v = vec![];
    v.push(pair_scenario("pair-arrays", if thorough { &[1, 2, 3, 6, 9] } else { &[2, 3, 9] }, if thorough { 7 } else { 6 },
        &[Op::Resolve(0, 0, 0), Op::Resolve(1, 0, 1), Op::Commit(0, 2), Op::Commit(1, 3), Op::Meld(0, 1), Op::Travel(0, 0), Op::Travel(1, 1), Op::Reload(0), Op::Reopen(1)]));
    v.push(pair_conflict_scenario("pair-conflict", 2, 3, if thorough { &[1, 8, 4] } else { &[1, 8] }, if thorough { 5 } else { 4 },
        &[Op::Resolve(1, 0, 0), Op::Resolve(1, 0, 1), Op::Commit(1, 1), Op::Travel(1, 0), Op::Travel(1, 2), Op::Reload(1)]));
    v.push(trio_scenario("trio", if thorough { 7 } else { 6 }));
    v.push(same_edit_scenario("pair-same-edit", if thorough { 4 } else { 3 }, &[Op::Travel(0, 3), Op::Commit(0, 3)]));
    v.push(many_commits_scenario("pair-many-commits", if thorough { 4 } else { 3 }, &[Op::Travel(0, 3), Op::Travel(0, 9), Op::Travel(1, 2), Op::Reload(0)]));
    for sc in v.iter_mut() {
        sc.key_opts.heads = true;
    }
    v.push(uneven_heads_scenario("pair-heads-9-and-10", if thorough { 4 } else { 3 }, &[]));
    v.extend(cross_scenarios(thorough));
    v.extend(combo_scenarios(thorough));
    v
}

pub fn run(thorough: bool) {
    let mut rep = Report::new("C13", if thorough { "thorough" } else { "quick" }, "model_checking");
    run_h(&mut rep, RunCfg {
        scenarios: scenarios(thorough),
        probes: vec![Arc::new(GraphProbe)],
        pools: vec![1],
        time_budget_s: if thorough { 2400 } else { 40 },
        max_states: if thorough { 300_000 } else { 40_000 },
        stop_on_violation: true,
    });
    rep.set("rule", json!("at EVERY commit transition: exactly one new .delta (and at most one .pack) key, raw parents == get_anchors() immediately before, index > every parent's, afterwards get_anchors() == {new block} == returned set, raw info == argument, raw pack list == packs written; commits returning None write nothing. In EVERY state on every replica: applied blocks are ancestor-closed with strictly increasing indexes, get_anchors() == applied blocks not named as parent by an applied block, and get_delta(id) parents/packs/info == the independently parsed raw file. Histories include branching, merging, resolution-only and pack-less commits and commits after time travel. distinct_nontrivial = distinct committed block identifiers"));
    finalize(&mut rep);
    rep.finish();
}
