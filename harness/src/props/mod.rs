pub mod c08;
pub mod replay;

pub fn run(p: &str, thorough: bool, rest: &[String]) {
    let _ = rest;
    match p {
        "C08" => c08::run(thorough),
        _ => {
            eprintln!("unknown property {}", p);
            std::process::exit(2);
        }
    }
}
