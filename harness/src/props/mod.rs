pub mod c01;
pub mod c02;
pub mod c03;
pub mod c04;
pub mod c05;
pub mod c06;
pub mod c07;
pub mod c08;
pub mod c09;
pub mod c10;
pub mod c11;
pub mod c12;
pub mod c13;
pub mod c14;
pub mod c15;
pub mod c16;
pub mod c17;
pub mod c18;
pub mod c19;
pub mod common;
pub mod engine_s;
pub mod replay;

pub fn run(p: &str, thorough: bool, rest: &[String]) {
    match p {
        "C01" => c01::run(thorough),
        "C02" => c02::run(thorough),
        "C03" => c03::run(thorough),
        "C04" => c04::run(thorough),
        "C05" => c05::run(thorough),
        "C06" => c06::run(thorough),
        "C07" => c07::run(thorough),
        "C08" => c08::run(thorough),
        "C08-cycles-child" => c08::cycles_child(),
        "C09" => c09::run(thorough),
        "C10" => c10::run(thorough),
        "C11" => c11::run(thorough),
        "C12" => c12::run(thorough),
        "C13" => c13::run(thorough),
        "C14" => c14::run(thorough),
        "C15" => c15::run(thorough),
        "C16" => c16::run(thorough, rest),
        "C17" => c17::run(thorough),
        "C18" => c18::run(thorough),
        "C19" => c19::run(thorough),
        _ => {
            eprintln!("unknown property {}", p);
            std::process::exit(2);
        }
    }
}
