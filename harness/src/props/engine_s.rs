//! Bridge to engine S (separate crate: /verif/engine_s): runs it and folds its result into a report.
use crate::explore::Violation;
use crate::report::{verif_root, Report};
use serde_json::{json, Value};

pub fn run_engine_s(rep: &mut Report, thorough: bool, property: &str) {
    run_engine_s_only(rep, thorough, property, None)
}

/// `only`: restrict to the bodies whose prepared state starts with the given prefix; then every
/// failure (deadlock, panic, schedule-dependent result) is attributed to `property`
pub fn run_engine_s_only(rep: &mut Report, thorough: bool, property: &str, only: Option<&str>) {
    let exe = format!("{}/engine_s/target/release/engine_s", verif_root());
    // The exploration is deterministic for a given engine binary (which embeds /repo's sources) and
    // arguments; C08, C16 and C18 all need it, so its result is cached under the build directory, keyed by
    // the digest of the binary and the arguments (a changed /repo gives a new binary, hence a new key).
    let bin = std::fs::read(&exe).unwrap_or_else(|e| {
        eprintln!("MACHINERY: cannot read engine S binary ({}): {}", exe, e);
        std::process::exit(2);
    });
    let key = crate::world::sha_hex(format!("{}|{}|{:?}", crate::world::sha_hex(&bin), thorough, only).as_bytes());
    let cache_dir = format!("{}/engine_s/target/result-cache", verif_root());
    let cache_file = format!("{}/{}.json", cache_dir, &key[..24]);
    let reuse = std::env::var("MV_ENGINE_S_NO_CACHE").is_err();
    let cached: Option<Value> = if reuse { std::fs::read_to_string(&cache_file).ok().and_then(|s| serde_json::from_str(&s).ok()) } else { None };
    let reused = cached.is_some();
    let r: Value = match cached {
        Some(v) => v,
        None => {
            let mut cmd = std::process::Command::new(&exe);
            cmd.arg(if thorough { "thorough" } else { "quick" });
            if let Some(o) = only {
                cmd.args(["--only", o]);
            }
            let out = match cmd.output() {
                Ok(o) => o,
                Err(e) => {
                    eprintln!("MACHINERY: cannot run engine S ({}): {}", exe, e);
                    std::process::exit(2);
                }
            };
            let s = String::from_utf8_lossy(&out.stdout);
            let Some(line) = s.lines().find(|l| l.starts_with("RESULT ")) else {
                eprintln!("MACHINERY: engine S produced no result\nstdout: {}\nstderr: {}", s, String::from_utf8_lossy(&out.stderr));
                std::process::exit(2);
            };
            let v: Value = serde_json::from_str(&line[7..]).expect("engine S result is JSON");
            let _ = std::fs::create_dir_all(&cache_dir);
            let _ = std::fs::write(&cache_file, v.to_string());
            v
        }
    };
    let schedules = r["schedules"].as_u64().unwrap_or(0);
    rep.add_u64("evaluations", schedules);
    rep.add_u64("traces_validated_against_impl", schedules);
    rep.add_u64("schedules_explored", schedules);
    let bodies = r["bodies"].as_array().cloned().unwrap_or_default();
    let incomplete = bodies.iter().filter(|b| b["complete_within_bound"] != json!(true)).count();
    rep.set("engine_s", json!({
        "bodies": bodies,
        "schedules": schedules,
        "bodies_not_complete_within_bound": incomplete,
        "wall_s": r["wall_s"],
        "result_reused_from_an_identical_run": reused,
        "what": "every schedule (preemption-bounded DFS over lock / condvar / spawn / join points; items of a parallel section handed to W worker tasks through a shared queue) of ONE operation executed in a prepared state, on melda.rs compiled with its locks and parallel iterators routed through shuttle; oracles: no deadlock, no panic, result and view equal to the sequential run",
    }));
    rep.push_sample(json!({"engine_s_body": bodies.first()}));
    for f in r["failures"].as_array().cloned().unwrap_or_default() {
        let kind = f["kind"].as_str().unwrap_or("?").to_string();
        let is_view = kind == "view-differs";
        if kind == "machinery" {
            eprintln!("MACHINERY: engine S: {}", f["message"]);
            std::process::exit(2);
        }
        // deadlocks / panics belong to C08, schedule-dependent results to C18
        // C08: deadlocks and panics; C18: everything that happens only under some schedule (also a panic)
        let sequential = kind == "sequential-run-failed";
        if only.is_none() && ((property == "C08" && is_view) || (property == "C18" && sequential)) {
            continue;
        }
        let msg: String = f["message"].as_str().unwrap_or("").split(" @ ").next().unwrap_or("").chars().take(50).collect();
        let sig = if only.is_some() {
            format!("{}:S:{}:{}/{}", property, kind, f["state"].as_str().unwrap_or("?"), f["op"].as_str().unwrap_or("?"))
        } else if property == "C18" {
            format!("C18:S:result-depends-on-schedule:{}/{}", f["state"].as_str().unwrap_or("?"), f["op"].as_str().unwrap_or("?"))
        } else {
            format!("C08:S:{}:{}", if msg.to_lowercase().contains("deadlock") { "deadlock".to_string() } else { format!("panic:{}", msg) }, f["op"].as_str().unwrap_or("?"))
        };
        let sched: Vec<String> = f["schedule"].as_array().map(|a| a.iter().map(|x| x.to_string()).collect()).unwrap_or_default();
        rep.violations.push(Violation {
            property: property.to_string(),
            signature: sig,
            scenario: "engine-s".into(),
            history: vec![],
            detail: json!({"engine_s": f, "engine_s_replay": [f["state"], f["op"], f["workers"].to_string(), f["policy"].to_string(), sched.join(",")]}),
        });
    }
}
