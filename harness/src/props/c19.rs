//! C19 — revision identifiers are canonical.
use super::common::*;
use crate::explore::*;
use crate::menu::*;
use crate::report::Report;
use crate::world::*;
use melda::verif_hooks::{digest_object, Revision};
use rayon::prelude::*;
use serde_json::{json, Value};
use std::cmp::Ordering as O;
use std::collections::hash_map::DefaultHasher;
use std::collections::BTreeSet;
use std::hash::{Hash, Hasher};
use std::sync::atomic::{AtomicU64, Ordering};
use std::sync::Arc;
use std::sync::Mutex;

fn h(r: &Revision) -> u64 {
    let mut s = DefaultHasher::new();
    r.hash(&mut s);
    s.finish()
}

/// every revision reachable through the constructors the system uses, with the recipe that built it
pub fn reachable(thorough: bool) -> Vec<(Revision, Option<Revision>, String)> {
    // (the last three are bare character-code objects: their digest is the code itself, in the case the user wrote it)
    let objs = vec![json!({"v":1}), json!({"v":2}), json!({"A":["x","y"]}), json!({"a":[["i",0,["x"]]]}), json!({}), json!({"#":"41"}), json!({"#":"1F600"}), json!({"#":"aB"})];
    let digests: Vec<String> = objs.iter().map(|o| digest_object(o.as_object().unwrap()).unwrap()).collect();
    let mut out: Vec<(Revision, Option<Revision>, String)> = vec![];
    let mut seen = BTreeSet::new();
    let mut layer: Vec<Revision> = vec![];
    for d in &digests {
        let r = Revision::new(1u32, d.clone(), None);
        if seen.insert(r.to_string()) {
            out.push((r.clone(), None, d.clone()));
            layer.push(r);
        }
    }
    let depth = if thorough { 4 } else { 3 };
    for _ in 0..depth {
        let mut next = vec![];
        for p in &layer {
            let mut kids: Vec<(Revision, String)> = vec![];
            for d in digests.iter().take(if thorough { 3 } else { 2 }) {
                kids.push((Revision::new_updated(d.clone(), p), d.clone()));
            }
            kids.push((Revision::new_deleted(p), "d".into()));
            kids.push((Revision::new_resolved(p), "r".into()));
            for (k, d) in kids {
                if seen.insert(k.to_string()) {
                    out.push((k.clone(), Some(p.clone()), d));
                    next.push(k);
                }
            }
        }
        layer = next;
        if out.len() > (if thorough { 900 } else { 260 }) {
            break;
        }
    }
    // long chains: indexes up to 12, and re-based around 98..101 and 998..1001 via the loader's constructor
    for base in [1u32, 97, 997] {
        let mut cur = Revision::new(base, digests[0].clone(), if base == 1 { None } else { Some(&out[1].0) });
        for i in 0..(if base == 1 { 12 } else { 5 }) {
            let d = &digests[(i % 2) as usize];
            let n = Revision::new(cur.index() + 1, d.clone(), Some(&cur));
            if seen.insert(n.to_string()) {
                out.push((n.clone(), Some(cur.clone()), d.clone()));
            }
            cur = n;
        }
    }
    out
}

pub fn revision_sweep(rep: &mut Report, thorough: bool) {
    let rs = reachable(thorough);
    let n = rs.len();
    let mut bad: Vec<Value> = vec![];
    let mut evals = 0u64;
    // (1) purity + (2) print/parse round trip + loader reconstruction
    for (r, parent, d) in &rs {
        evals += 1;
        let s = r.to_string();
        let back = Revision::from(&s);
        let ok_parse = match &back {
            Ok(b) => b == r && h(b) == h(r) && b.to_string() == s && b.cmp(r) == O::Equal,
            Err(_) => false,
        };
        if !ok_parse {
            bad.push(json!({"input": s, "what": "print/parse round trip", "parsed": back.as_ref().map(|b| b.to_string()).map_err(|e| e.to_string())}));
        }
        if let Some(p) = parent {
            // the loader rebuilds a revision from a change record [uuid, prev, digest]
            let pp = Revision::from(&p.to_string()).unwrap();
            let rebuilt = Revision::new(pp.index() + 1, d.clone(), Some(&pp));
            let again = Revision::new_updated(d.clone(), p);
            if &rebuilt != r || rebuilt.to_string() != s || h(&rebuilt) != h(r) || again.to_string() != s {
                bad.push(json!({"input": s, "what": "loader reconstruction / purity", "rebuilt": rebuilt.to_string(), "again": again.to_string()}));
            }
        } else {
            let rebuilt = Revision::new(1, d.clone(), None);
            if &rebuilt != r {
                bad.push(json!({"input": s, "what": "creation purity"}));
            }
        }
    }
    // injectivity: distinct (parent, digest) recipes give distinct identifiers
    let strs: BTreeSet<String> = rs.iter().map(|(r, _, _)| r.to_string()).collect();
    if strs.len() != n {
        bad.push(json!({"what": "two recipes produced the same identifier"}));
    }
    // (3) all ordered triples: strict total order consistent with equality
    let revs: Vec<Revision> = rs.iter().map(|(r, _, _)| r.clone()).collect();
    let triples = AtomicU64::new(0);
    let badt: Mutex<Vec<Value>> = Mutex::new(vec![]);
    // comparison matrix: every ordered pair is compared exactly once by the real Ord impl
    let mat: Vec<Vec<i8>> = (0..n)
        .into_par_iter()
        .map(|i| {
            let a = &revs[i];
            (0..n)
                .map(|j| {
                    let b = &revs[j];
                    let ab = a.cmp(b);
                    let eq = a == b;
                    let mut fail = None;
                    if (ab == O::Equal) != eq {
                        fail = Some("cmp == Equal <=> ==");
                    }
                    if eq && h(a) != h(b) {
                        fail = Some("== => equal hash");
                    }
                    if (i == j) && ab != O::Equal {
                        fail = Some("reflexivity");
                    }
                    if (i != j) && eq {
                        fail = Some("distinct identifiers compare equal");
                    }
                    if a.partial_cmp(b) != Some(ab) || (a < b) != (ab == O::Less) || (a > b) != (ab == O::Greater) {
                        fail = Some("partial_cmp consistent");
                    }
                    if let Some(f) = fail {
                        let mut bt = badt.lock().unwrap();
                        if bt.len() < 3 {
                            bt.push(json!({"what": f, "a": a.to_string(), "b": b.to_string()}));
                        }
                    }
                    match ab {
                        O::Less => -1i8,
                        O::Equal => 0,
                        O::Greater => 1,
                    }
                })
                .collect()
        })
        .collect();
    (0..n).into_par_iter().for_each(|i| {
        let mut local = 0u64;
        for j in 0..n {
            let ab = mat[i][j];
            if ab != -mat[j][i] {
                let mut bt = badt.lock().unwrap();
                if bt.len() < 3 {
                    bt.push(json!({"what": "antisymmetry", "a": revs[i].to_string(), "b": revs[j].to_string()}));
                }
            }
            for k in 0..n {
                local += 1;
                let bc = mat[j][k];
                let ac = mat[i][k];
                if (ab <= 0 && bc <= 0 && ac > 0) || (ab < 0 && bc < 0 && ac >= 0) || (ab == 0 && ac != bc) {
                    let mut bt = badt.lock().unwrap();
                    if bt.len() < 3 {
                        bt.push(json!({"what": "transitivity", "a": revs[i].to_string(), "b": revs[j].to_string(), "c": revs[k].to_string()}));
                    }
                }
            }
        }
        triples.fetch_add(local, Ordering::Relaxed);
    });
    bad.extend(badt.into_inner().unwrap());
    for d in bad.iter().take(3) {
        rep.violations.push(Violation { property: "C19".into(), signature: format!("C19:{}", d["what"].as_str().unwrap_or("?")), scenario: "revision-sweep".into(), history: vec![], detail: d.clone() });
    }
    let t = triples.load(Ordering::Relaxed);
    rep.add_u64("evaluations", evals + t);
    rep.set("revision_sweep", json!({"revisions": n, "ordered_triples": t, "failing": bad.len()}));
    rep.push_sample(json!({"revisions": rs.iter().skip(7).take(4).map(|(r, p, _)| json!([r.to_string(), p.as_ref().map(|p| p.to_string())])).collect::<Vec<_>>()}));
    let cur = rep.coverage.get("distinct_nontrivial").and_then(|v| v.as_u64()).unwrap_or(0);
    rep.set("distinct_nontrivial", json!(cur + n as u64));
}

/// engine H part: two replicas with a shared base make the same two edits independently
pub fn same_edit_sweep(rep: &mut Report, thorough: bool) {
    let mut docs = arr_docs();
    if thorough {
        docs.extend(kind_docs().into_iter().take(10));
    }
    let nd = docs.len();
    let m = menu(docs.clone());
    let sc = Scenario { name: "same-edits".into(), nrep: 2, menu: m.clone(), prologue: vec![], alphabet: vec![], key_opts: KeyOpts::default(), max_depth: 0, track: false, order: None };
    let mut cx = Cx::default();
    let mut cases = 0u64;
    for d1 in 1..nd {
        for d2 in 0..nd {
            cases += 1;
          for variant in 0..2 {
            // variant 0: both replicas warm; variant 1: the first edit is committed, then replica 1 is
            // reopened (cold caches) while replica 0 keeps its caches, then the second edit
            let hist = if variant == 0 { vec![
                Op::Upd(0, 0), Op::Commit(0, 0), Op::Sync(1, 0),
                Op::Upd(0, d1), Op::Upd(0, d2), Op::Commit(0, 0),
                Op::Upd(1, d1), Op::Upd(1, d2), Op::Commit(1, 1),
            ] } else { vec![
                Op::Upd(0, 0), Op::Commit(0, 0), Op::Sync(1, 0),
                Op::Upd(0, d1), Op::Commit(0, 0), Op::Read(0), Op::Upd(0, d2), Op::Commit(0, 0),
                Op::Upd(1, d1), Op::Commit(1, 0), Op::Reopen(1), Op::Upd(1, d2), Op::Commit(1, 1),
            ] };
            let mut w = World::build(2, m.clone(), &hist);
            if w.any_dead() {
                continue;
            }
            let objs = |w: &World, r: usize| w.view(r)["objects"].clone();
            let (a, b) = (objs(&w, 0), objs(&w, 1));
            if a != b {
                cx.violation("C19", "C19:same-edits-different-revisions", &sc, &hist, json!({"objects_0": a, "objects_1": b}));
                continue;
            }
            w.apply(&Op::Sync(0, 1));
            w.apply(&Op::Sync(1, 0));
            for r in 0..2 {
                let v = w.view(r);
                let leaves_single = w.reps[r].m.get_all_objects().iter().all(|u| w.reps[r].m.verif_leafs(u).map(|l| l.len() <= 1).unwrap_or(false));
                if v["in_conflict"] != json!([]) || !leaves_single || v["objects"] != a {
                    cx.violation("C19", "C19:same-edits-conflict-after-sync", &sc, &hist, json!({"replica": r, "view": v}));
                }
            }
          }
        }
    }
    rep.add_u64("evaluations", cases);
    rep.set("same_edit_sweep", json!({"document_pairs": cases, "failing": cx.violations.len()}));
    rep.violations.extend(cx.violations);
}

/// engine H part: in EVERY state of histories with conflicts, resolutions, full snapshots, deletions and time travel,
/// every revision a replica holds is the pure function of (index, content digest, parent identifier) the
/// constructors define - recomputed from the tree dump - and its index is its parent's plus one
pub struct PurityProbe;

impl Probe for PurityProbe {
    fn on_state(&self, sc: &Scenario, hist: &[Op], cx: &mut Cx) {
        let w = sc.build(hist);
        if w.any_dead() {
            return;
        }
        for r in 0..sc.nrep {
            w.focus();
            let m = &w.reps[r].m;
            for u in m.get_all_objects() {
                let Some(tree) = m.verif_dump_tree(&u) else { continue };
                for (rev, parent, _staged) in tree {
                    cx.count("tree_revision_purity_checks");
                    let Ok(rv) = Revision::from(&rev) else {
                        cx.violation("C19", "C19:tree-revision-does-not-parse", sc, hist, json!({"replica": r, "object": u, "revision": rev}));
                        return;
                    };
                    if rv.to_string() != rev {
                        cx.violation("C19", "C19:tree-revision-print-parse", sc, hist, json!({"replica": r, "object": u, "revision": rev, "reprinted": rv.to_string()}));
                        return;
                    }
                    if let Some(p) = parent {
                        let Ok(pv) = Revision::from(&p) else {
                            cx.violation("C19", "C19:tree-revision-does-not-parse", sc, hist, json!({"replica": r, "object": u, "revision": p}));
                            return;
                        };
                        let again = Revision::new(pv.index() + 1, rv.digest().clone(), Some(&pv));
                        if again.to_string() != rev {
                            cx.violation("C19", "C19:tree-revision-not-a-function-of-content-and-parent", sc, hist,
                                json!({"replica": r, "object": u, "revision": rev, "parent": p, "recomputed": again.to_string()}));
                            return;
                        }
                    }
                }
            }
        }
    }
}

fn purity_exploration(rep: &mut Report, thorough: bool) {
    let mut scs = vec![];
    scs.push(pair_conflict_scenario("purity-pair-conflict", 2, 3, &[1, 8], if thorough { 4 } else { 3 },
        &[Op::Snapshot(0), Op::Snapshot(1), Op::Resolve(1, 0, 0), Op::Resolve(1, 0, 1), Op::Unstage(1)]));
    scs.extend(combo_scenarios(thorough).into_iter().filter(|s| s.order.is_none() && (thorough || s.name.contains("snapshot") || s.name.contains("replay") || s.name.contains("travel"))));
    run_h(rep, RunCfg {
        scenarios: scs,
        probes: vec![Arc::new(PurityProbe)],
        pools: vec![1],
        time_budget_s: if thorough { 900 } else { 25 },
        max_states: if thorough { 200_000 } else { 20_000 },
        stop_on_violation: true,
    });
}

pub fn run(thorough: bool) {
    let mut rep = Report::new("C19", if thorough { "thorough" } else { "quick" }, "exploration");
    revision_sweep(&mut rep, thorough);
    same_edit_sweep(&mut rep, thorough);
    let n_revs = rep.coverage.get("distinct_nontrivial").and_then(|v| v.as_u64()).unwrap_or(0);
    purity_exploration(&mut rep, thorough);
    rep.set("distinct_nontrivial", json!(n_revs));
    rep.set("exhaustive", json!(true));
    rep.set("rule", json!("R = every revision reachable through the system's constructors (creation from each menu digest, new_updated / new_deleted / new_resolved to the stated depth, loader-style chains to index 13 and around 98..102 / 998..1002). (1) purity: each recipe evaluated twice and through print->parse->rebuild gives the same identifier, distinct recipes give distinct identifiers; (2) Revision::from(to_string(r)) == r with equal hash; (3) ALL ordered triples of R: reflexive, antisymmetric, transitive, total, cmp==Equal <=> ==, == => equal hash. (T) in every state of conflict / resolution / full-snapshot / time-travel histories every revision in every tree equals Revision::new(parent.index+1, its digest, parent) recomputed from the tree dump and reprints as itself. (H) for every ordered pair of menu documents two replicas with a shared base apply both edits independently: identical winners before sync, no conflict and single leaves after. distinct_nontrivial = |R|"));
    rep.assume("hash collisions of the 7-hex parent tail are not explored");
    rep.finish();
}
