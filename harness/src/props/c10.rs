//! C10 — stored items are trusted only if their content matches their name.
use super::common::*;
use crate::explore::*;
use crate::guard::set_trace;
use crate::menu::*;
use crate::refmodel;
use crate::report::Report;
use crate::world::*;
use rayon::prelude::*;
use serde_json::{json, Value};
use std::collections::{BTreeMap, BTreeSet};
use std::sync::atomic::{AtomicU64, Ordering};
use std::sync::Mutex;

/// Opens a damaged store; Ok(None) = acceptable (error reported, or state == reference), Err = violation detail
fn check_open(damaged: &RawStore) -> Result<&'static str, Value> {
    let v = fresh_view(damaged, "C10 open(damaged)");
    if let Some(e) = v.get("open").and_then(|e| e.as_str()) {
        if e.starts_with("panic:") {
            return Err(json!({"error": "open panicked", "panic": e}));
        }
        return Ok("error-reported");
    }
    if v.to_string().contains("panic:") {
        return Err(json!({"error": "an accessor panicked on the opened replica", "view": v}));
    }
    let sub = refmodel::complete_substore(damaged);
    let want = fresh_view(&sub, "C10 open(intact complete subset)");
    if v != want {
        return Err(json!({"error": "state differs from the state of the intact, causally complete subset", "differs": diff_keys(&v, &want), "view": v, "expected": want}));
    }
    Ok("state-of-intact-subset")
}

/// The same damaged storage written to a directory and opened through the URL constructor
/// (Melda::new_from_url("file://...")): an error, or the state of the intact, causally complete subset.
fn check_open_url(damaged: &RawStore) -> Result<&'static str, Value> {
    use melda::adapter::Adapter;
    let dir = crate::props::c17::fresh_path();
    {
        let fs = melda::filesystemadapter::FilesystemAdapter::new(&dir).map_err(|e| json!({"error": "scratch directory", "message": e.to_string()}))?;
        for (k, v) in damaged {
            // (the directory backend refuses nothing: names are file names)
            if k.is_empty() || k.contains('/') {
                continue;
            }
            let _ = fs.write_object(k, v);
        }
    }
    let url = format!("file://{}", dir);
    set_trace("C10 new_from_url(damaged)");
    let r = crate::guard::call("new_from_url", || melda::melda::Melda::new_from_url(&url).map_err(|e| e.to_string()));
    let out = match r {
        Err(p) => Err(json!({"error": "new_from_url panicked", "panic": p})),
        Ok(Err(_)) => Ok("error-reported"),
        Ok(Ok(m)) => {
            let v = view(&m);
            let want = fresh_view(&refmodel::complete_substore(damaged), "C10 open(intact complete subset)");
            if v.to_string().contains("panic:") {
                Err(json!({"error": "an accessor panicked on the replica opened by URL", "view": v}))
            } else if v != want {
                Err(json!({"error": "the replica opened by URL differs from the state of the intact, causally complete subset", "differs": diff_keys(&v, &want), "view": v, "expected": want}))
            } else {
                Ok("state-of-intact-subset")
            }
        }
    };
    let _ = std::fs::remove_dir_all(&dir);
    out
}

/// presents damaged items to a live replica that has not loaded them yet
fn check_refresh(base: &RawStore, extra: &RawStore) -> Result<&'static str, Value> {
    let (mut m, st) = match fresh_on(base, "C10 live replica") {
        Ok(x) => x,
        Err(_) => return Ok("base-does-not-open"),
    };
    for (k, v) in extra {
        st.put_raw(k, v.clone());
    }
    set_trace("C10 refresh(damaged items)");
    match crate::guard::call("refresh", || m.refresh()) {
        Err(p) => Err(json!({"error": "refresh panicked", "panic": p})),
        Ok(Err(_)) => Ok("error-reported"),
        Ok(Ok(())) => {
            let v = view(&m);
            if v.to_string().contains("panic:") {
                return Err(json!({"error": "an accessor panicked after refresh", "view": v}));
            }
            let now = st.snapshot();
            let want = fresh_view(&refmodel::complete_substore(&now), "C10 open(intact complete subset)");
            if v != want {
                return Err(json!({"error": "refreshed state differs from the state of the intact, causally complete subset", "differs": diff_keys(&v, &want), "view": v, "expected": want}));
            }
            Ok("state-of-intact-subset")
        }
    }
}

/// A live replica that has loaded everything; then one item is damaged IN PLACE and the replica keeps
/// being used (refresh, get_value of every revision, read): it may report errors, but whatever content
/// it returns must be the content of the undamaged run. Returns (evaluations, first violation).
fn live_damage(store: &RawStore, hist: &str, every_bit: bool) -> (u64, Option<Value>) {
    let Ok((mut m, st)) = fresh_on(store, "C10 live replica (all loaded)") else { return (0, None) };
    // undamaged observations
    let mut revs: Vec<(String, String, Value)> = vec![];
    for uuid in m.get_all_objects() {
        for (rev, _, _) in m.verif_dump_tree(&uuid).unwrap_or_default() {
            if let Ok(v) = m.get_value(&uuid, Some(&rev)) {
                revs.push((uuid.clone(), rev, Value::Object(v)));
            }
        }
    }
    let read0 = read_doc(&m);
    let mut n = 0u64;
    for (k, b) in store.iter() {
        let mut damages: Vec<(String, Vec<u8>)> = vec![];
        let step = if every_bit { 1 } else { 3 };
        for bit in (0..b.len() * 8).step_by(step) {
            let mut nb = b.clone();
            nb[bit / 8] ^= 1 << (bit % 8);
            damages.push((format!("bit {} of {} flipped in place", bit, k), nb));
        }
        // same-length substitutions that keep JSON well-formed: every digit replaced by another digit
        for (i, c) in b.iter().enumerate() {
            if c.is_ascii_digit() {
                let mut nb = b.clone();
                nb[i] = if *c == b'9' { b'0' } else { c + 1 };
                damages.push((format!("digit at {} of {} replaced in place", i, k), nb));
            }
        }
        for (desc, nb) in damages {
            n += 1;
            st.put_raw(k, nb);
            set_trace("C10 live replica after in-place damage");
            let r = crate::guard::call("refresh", || m.refresh());
            let mut bad = None;
            if r.is_ok() {
                for (uuid, rev, v0) in &revs {
                    if let Ok(Ok(v)) = crate::guard::call("get_value", || m.get_value(uuid, Some(rev))) {
                        if &Value::Object(v.clone()) != v0 {
                            bad = Some(json!({"error": "get_value exposes altered content", "uuid": uuid, "revision": rev, "returned": v, "committed": v0}));
                            break;
                        }
                    }
                }
                if bad.is_none() {
                    let rd = read_doc(&m);
                    if rd.get("ok").is_some() && rd != read0 {
                        bad = Some(json!({"error": "read exposes altered content", "returned": rd, "committed": read0}));
                    }
                }
            }
            st.put_raw(k, b.clone());
            if let Some(mut d) = bad {
                d["damage"] = json!(desc);
                d["input"] = json!({"history_of_store": hist});
                return (n, Some(d));
            }
            if r.is_err() {
                // a panic inside refresh poisons the replica: reopen
                match fresh_on(store, "C10 live replica (reopened)") {
                    Ok((m2, st2)) => {
                        m = m2;
                        // keep damaging the storage the new replica reads from
                        for (kk, vv) in store {
                            st2.put_raw(kk, vv.clone());
                        }
                        return live_damage_rest(n);
                    }
                    Err(_) => return (n, None),
                }
            }
        }
    }
    (n, None)
}

/// A live source replica that has loaded everything, then one of its items is damaged in place; a second
/// replica (empty, or holding everything but that item) melds from it and refreshes: it may end up without the
/// item, but what it shows must be the state of the intact, causally complete subset of what it now stores.
fn meld_from_damaged(store: &RawStore, hist: &str) -> (u64, Option<Value>) {
    let mut n = 0u64;
    for (k, b) in store.iter() {
        let mut variants = crate::props::c11::damage_variants(b);
        // same-length substitution that keeps JSON well-formed
        if let Some(i) = b.iter().position(|c| c.is_ascii_digit()) {
            let mut nb = b.clone();
            nb[i] = if b[i] == b'9' { b'0' } else { b[i] + 1 };
            variants.push(("digit-replaced", nb));
        }
        for (what, nb) in variants {
            for target_has_rest in [false, true] {
                let Ok((src, src_st)) = fresh_on(store, "C10 live source (all loaded)") else { return (n, None) };
                let base: RawStore = if target_has_rest { store.iter().filter(|(kk, _)| *kk != k).map(|(a, b)| (a.clone(), b.clone())).collect() } else { RawStore::new() };
                let Ok((mut tgt, tgt_st)) = fresh_on(&base, "C10 meld target") else { continue };
                src_st.put_raw(k, nb.clone());
                n += 1;
                set_trace("C10 meld from a source damaged in place");
                let r = crate::guard::call("meld", || tgt.meld(&src).map(|_| ()).map_err(|e| e.to_string()));
                let detail = |e: Value| {
                    let mut d = e;
                    d["damage"] = json!(format!("{} of {} in the live source", what, k));
                    d["target"] = json!(if target_has_rest { "holds every other item" } else { "empty" });
                    d["input"] = json!({"history_of_store": hist});
                    d
                };
                match r {
                    Err(p) => return (n, Some(detail(json!({"error": "meld panicked", "panic": p})))),
                    Ok(Err(_)) => continue,
                    Ok(Ok(())) => {}
                }
                match crate::guard::call("refresh", || tgt.refresh()) {
                    Err(p) => return (n, Some(detail(json!({"error": "refresh panicked", "panic": p})))),
                    Ok(Err(_)) => continue,
                    Ok(Ok(())) => {}
                }
                let v = view(&tgt);
                if v.to_string().contains("panic:") {
                    return (n, Some(detail(json!({"error": "an accessor panicked after meld + refresh", "view": v}))));
                }
                let now = tgt_st.snapshot();
                let want = fresh_view(&refmodel::complete_substore(&now), "C10 open(intact complete subset)");
                if v != want {
                    return (n, Some(detail(json!({"error": "state after meld + refresh differs from the state of the intact, causally complete subset of the target's storage", "differs": diff_keys(&v, &want), "view": v, "expected": want}))));
                }
            }
        }
    }
    (n, None)
}

/// A live replica loses an item it had loaded (a pack or a block disappears from storage) and reloads: it then
/// shows what a fresh open of that storage shows, and whatever it commits next is durable (reopens equal) - the
/// lost item must not survive in an index or cache that later operations trust.
fn lost_item_then_reload(thorough: bool) -> (u64, Vec<Value>) {
    let sc = pair_conflict_scenario("pair-conflict", 2, 3, &[1, 8], if thorough { 3 } else { 2 }, &[Op::Resolve(1, 0, 1)]);
    let ex = Explorer { sc: sc.clone(), probes: vec![], limits: Limits { pool_size: 1, ..Default::default() } };
    let r = ex.run(true);
    let states: Vec<Vec<Op>> = r.states.iter().take(if thorough { 400 } else { 60 }).cloned().collect();
    let n = AtomicU64::new(0);
    let bad: Mutex<Vec<Value>> = Mutex::new(vec![]);
    states.par_iter().for_each(|h| {
        let w0 = sc.build(h);
        if w0.any_dead() {
            return;
        }
        for r in 0..sc.nrep {
            if has_staging(&w0.reps[r].m) {
                continue;
            }
            let keys: Vec<String> = w0.reps[r].store.keys();
            for k in &keys {
                let prepare = || -> Option<World> {
                    let mut w = sc.build(h);
                    w.reps[r].store.remove_raw(k);
                    if !w.apply(&Op::Reload(r)).is_ok() || w.any_dead() {
                        return None;
                    }
                    Some(w)
                };
                let Some(w) = prepare() else { continue };
                n.fetch_add(1, Ordering::Relaxed);
                let live = w.view(r);
                let fresh = fresh_view(&w.reps[r].store.snapshot(), "C10 open(after the loss)");
                if live != fresh {
                    bad.lock().unwrap().push(json!({"error": "after losing an item, reload differs from a fresh open", "lost": k, "input": {"history": hist_str(h), "replica": r}, "differs": diff_keys(&live, &fresh), "reloaded": live, "fresh": fresh}));
                    return;
                }
                for d in 0..sc.menu.docs.len() {
                    let Some(mut w) = prepare() else { break };
                    if !w.apply(&Op::Upd(r, d)).is_ok() {
                        continue;
                    }
                    let o = w.apply(&Op::Commit(r, 0));
                    if !matches!(&o, OpOut::Ok(s) if s != "none") {
                        continue;
                    }
                    n.fetch_add(1, Ordering::Relaxed);
                    if let Some(diff) = crate::props::c03::reopen_compare(&w, r) {
                        bad.lock().unwrap().push(json!({"error": "a commit made after losing an item and reloading does not reopen to the same state", "lost": k, "input": {"history": hist_str(h), "replica": r, "then": format!("remove {}; reload; upd(D{}); commit", k, d)}, "detail": diff}));
                        return;
                    }
                }
            }
        }
    });
    (n.load(Ordering::Relaxed), bad.into_inner().unwrap())
}

/// A live replica reloads while one stored item is unreadable (damaged in place, or a junk pack is listed): the
/// reload may fail. The damage then goes away (the file synchroniser finishes) and the replica REFRESHES: it must
/// show what a fresh open of the intact storage shows - a failed reload must not leave it half cleared.
fn failed_reload_then_refresh(store: &RawStore, hist: &str) -> (u64, Option<Value>) {
    let mut n = 0u64;
    let want = fresh_view(store, "C10 open(intact)");
    let mut cases: Vec<(String, String, Option<Vec<u8>>, Vec<u8>)> = vec![]; // (what, key, original, damaged)
    for (k, b) in store.iter() {
        cases.push((format!("{} truncated to half", k), k.clone(), Some(b.clone()), b[..b.len() / 2].to_vec()));
    }
    let junk = b"[{\"a\":1},{\"b\":".to_vec();
    cases.push(("a junk pack under a well-formed name".into(), format!("{}.pack", "0".repeat(64)), None, junk.clone()));
    cases.push(("a junk block under a well-formed name".into(), format!("1-{}.delta", "0".repeat(64)), None, b"{".to_vec()));
    for (what, key, original, damaged) in cases {
        for second in ["refresh", "reload"] {
            let Ok((mut m, st)) = fresh_on(store, "C10 live replica (all loaded)") else { return (n, None) };
            st.put_raw(&key, damaged.clone());
            n += 1;
            set_trace("C10 reload while an item is unreadable");
            let r1 = crate::guard::call("reload", || m.reload().map_err(|e| e.to_string()));
            if let Err(p) = &r1 {
                return (n, Some(json!({"error": "reload panicked", "panic": p, "damage": what, "input": {"history_of_store": hist}})));
            }
            match &original {
                Some(b) => st.put_raw(&key, b.clone()),
                None => st.remove_raw(&key),
            }
            let r2 = if second == "refresh" {
                crate::guard::call("refresh", || m.refresh().map_err(|e| e.to_string()))
            } else {
                crate::guard::call("reload", || m.reload().map_err(|e| e.to_string()))
            };
            match r2 {
                Err(p) => return (n, Some(json!({"error": format!("{} after the failed reload panicked", second), "panic": p, "damage": what, "input": {"history_of_store": hist}}))),
                Ok(Err(_)) => continue,
                Ok(Ok(())) => {}
            }
            let v = view(&m);
            if v != want {
                return (n, Some(json!({"error": format!("after a reload that met an unreadable item, {} on the intact storage does not give the state of a fresh open", second), "first_reload": format!("{:?}", r1), "damage": what, "differs": diff_keys(&v, &want), "view": v, "expected": want, "input": {"history_of_store": hist}})));
            }
        }
    }
    (n, None)
}

fn live_damage_rest(n: u64) -> (u64, Option<Value>) {
    (n, None)
}

/// head-addressed open (new_until) of a damaged store: an error, or exactly the undamaged result
fn check_until(damaged: &RawStore, heads: &std::collections::BTreeSet<String>, want: &Value) -> Result<&'static str, Value> {
    set_trace("C10 new_until(damaged)");
    let st = crate::adapter::Store::from_map(damaged.clone());
    let ids = to_delta_ids(heads);
    let ad = st.adapter();
    match crate::guard::call("new_until", move || melda::melda::Melda::new_until(ad, &ids)) {
        Err(p) => Err(json!({"error": "new_until panicked", "panic": p})),
        Ok(Err(_)) => Ok("error-reported"),
        Ok(Ok(m)) => {
            let v = view(&m);
            let g = block_graph(&m);
            let got = json!({"view": v, "graph_infos": g.as_object().map(|o| o.iter().map(|(k, d)| (k.clone(), d["info"].clone())).collect::<serde_json::Map<String, Value>>())});
            if &got != want {
                return Err(json!({"error": "time-travel open of a damaged storage exposes a state that differs from the undamaged one", "got": got, "undamaged": want}));
            }
            Ok("undamaged-state")
        }
    }
}

/// A live replica holds every pack but lacks one block file; every block depending on it is held back.
/// Then one of the already indexed packs is damaged in place (truncated / deleted / bytes appended), the
/// missing block arrives and refresh runs: an error, or exactly the state of the intact complete subset.
fn blocked_then_damaged(store: &RawStore, hist: &str) -> (u64, Option<Value>) {
    let mut n = 0u64;
    let deltas: Vec<String> = store.keys().filter(|k| k.ends_with(".delta")).cloned().collect();
    let packs: Vec<String> = store.keys().filter(|k| k.ends_with(".pack")).cloned().collect();
    let full = refmodel::analyse(store);
    for missing in &deltas {
        // only packs that belong to blocks which are held back while `missing` is absent: the packs of
        // blocks the replica has already applied are outside the statement (an applied block stays applied)
        let mut base0 = store.clone();
        base0.remove(missing);
        let held_back: Vec<&refmodel::RawBlock> = {
            let a = refmodel::analyse(&base0);
            full.blocks.values().filter(|b| !a.complete.contains(&b.id)).collect()
        };
        let applied_packs: std::collections::BTreeSet<String> = {
            let a = refmodel::analyse(&base0);
            a.blocks.values().filter(|b| a.complete.contains(&b.id)).flat_map(|b| b.packs.iter().map(|p| format!("{}.pack", p))).collect()
        };
        for p in &packs {
            if !held_back.iter().any(|b| b.packs.iter().any(|q| &format!("{}.pack", q) == p)) || applied_packs.contains(p) {
                continue;
            }
            for dmg in 0..3 {
                n += 1;
                let mut base = store.clone();
                base.remove(missing);
                let Ok((mut m, st)) = fresh_on(&base, "C10 live replica (one block missing)") else { continue };
                let b = store[p].clone();
                match dmg {
                    0 => st.put_raw(p, b[..b.len() / 2].to_vec()),
                    1 => st.remove_raw(p),
                    _ => {
                        let mut nb = b.clone();
                        nb.extend_from_slice(b"[]");
                        st.put_raw(p, nb)
                    }
                }
                st.put_raw(missing, store[missing].clone());
                set_trace("C10 refresh(after damage of an indexed pack)");
                let r = crate::guard::call("refresh", || m.refresh());
                let desc = format!("{} missing at open; then {} {} ; then {} delivered and refresh", missing, p, ["truncated to half", "deleted", "extended by two bytes"][dmg], missing);
                match r {
                    Err(pn) => return (n, Some(json!({"error": "refresh panicked", "panic": pn, "damage": desc, "input": {"history_of_store": hist}}))),
                    Ok(Err(_)) => {}
                    Ok(Ok(())) => {
                        let v = view(&m);
                        let now = st.snapshot();
                        let want = fresh_view(&refmodel::complete_substore(&now), "C10 open(intact complete subset)");
                        if v != want {
                            return (n, Some(json!({"error": "state after refresh differs from the state of the intact, causally complete subset", "differs": diff_keys(&v, &want), "view": v, "expected": want, "damage": desc, "input": {"history_of_store": hist}})));
                        }
                    }
                }
            }
        }
    }
    (n, None)
}

fn junk_menu(store: &RawStore) -> Vec<(String, Vec<u8>, &'static str)> {
    let mut v: Vec<(String, Vec<u8>, &'static str)> = vec![];
    let zeros = "0".repeat(64);
    let some_block = store.iter().find(|(k, _)| k.ends_with(".delta")).map(|(k, b)| (k.clone(), b.clone()));
    let some_pack = store.iter().find(|(k, _)| k.ends_with(".pack")).map(|(k, b)| (k.clone(), b.clone()));
    v.push(("junk.delta".into(), b"hello".to_vec(), "arbitrary-name-delta"));
    v.push(("junk.pack".into(), b"[{\"a\":1}]".to_vec(), "arbitrary-name-pack"));
    v.push((format!("1-{}.delta", zeros), b"{}".to_vec(), "wellformed-name-wrong-bytes-delta"));
    v.push((format!("{}.pack", zeros), b"[]".to_vec(), "wellformed-name-wrong-bytes-pack"));
    v.push((format!("3-{}.delta", zeros), vec![], "empty-delta"));
    v.push((format!("{}.pack", "f".repeat(64)), vec![], "empty-pack"));
    v.push((format!("7-{}.delta", zeros), vec![0xff, 0xfe, 0x00], "non-utf8-delta"));
    v.push((format!("99999999999-{}.delta", zeros), b"{}".to_vec(), "index-exceeds-u32"));
    v.push(("-.delta".into(), b"{}".to_vec(), "degenerate-name"));
    v.push((".delta".into(), b"{}".to_vec(), "empty-stem-delta"));
    v.push((".pack".into(), b"[]".to_vec(), "empty-stem-pack"));
    if let Some((k, b)) = &some_block {
        let (idx, dig) = refmodel::parse_block_name(k.strip_suffix(".delta").unwrap()).unwrap();
        v.push((format!("{}-{}.delta", idx + 1, dig), b.clone(), "valid-block-under-wrong-index"));
        v.push((format!("{}-{}.delta", idx, zeros), b.clone(), "valid-block-under-wrong-digest"));
        // a correctly named block whose JSON is not a block
        for (bytes, what) in [(b"[]".to_vec(), "named-correctly-not-an-object"), (b"{\"c\":[[1,2]]}".to_vec(), "named-correctly-bad-change-record"),
            (b"{\"p\":[\"nonsense\"]}".to_vec(), "named-correctly-bad-parent"), (b"{\"k\":[5]}".to_vec(), "named-correctly-bad-pack-entry"),
            (b"{\"c\":[[\"u\",\"notarev\",\"d\"]]}".to_vec(), "named-correctly-bad-prev-revision"), (b"{\"i\":5}".to_vec(), "named-correctly-bad-info"),
            (b"{\"c\":[[\"u\",\"99999999999-ab_cd\",\"d\"]],\"p\":[\"1-ab\"]}".to_vec(), "named-correctly-prev-revision-index-exceeds-u32"),
            (b"{\"c\":[[\"u\",\"4294967295-ab_cd\",\"d\"]],\"p\":[\"1-ab\"]}".to_vec(), "named-correctly-prev-revision-index-u32-max"),
            (b"{\"p\":[\"99999999999-ab\"]}".to_vec(), "named-correctly-parent-index-exceeds-u32"),
            (b"{\"p\":[\"4294967295-ab\"]}".to_vec(), "named-correctly-parent-index-u32-max"),
            (b"{\"c\":\"x\",\"p\":5}".to_vec(), "named-correctly-wrong-field-types"),
            (b"{\"c\":[[\"u\",5]]}".to_vec(), "named-correctly-nonstring-digest")] {
            v.push((format!("2-{}.delta", sha_hex(&bytes)), bytes.clone(), what));
            v.push((format!("1-{}.delta", sha_hex(&bytes)), bytes, what));
        }
    }
    // valid items under their own name in another letter case (names are compared as they are spelled)
    for (k, b) in store.iter() {
        let up = k.split('.').next().unwrap_or("").to_uppercase();
        let ext = if k.ends_with(".delta") { ".delta" } else { ".pack" };
        if up != k.split('.').next().unwrap_or("") {
            v.push((format!("{}{}", up, ext), b.clone(), "valid-item-under-its-name-in-upper-case"));
        }
    }
    if let Some((_, b)) = &some_pack {
        v.push((format!("{}.pack", "a".repeat(64)), b.clone(), "valid-pack-under-wrong-name"));
        let bytes = b"[{\"a\":1},{\"b\":".to_vec();
        v.push((format!("{}.pack", sha_hex(&bytes)), bytes, "named-correctly-truncated-json-pack"));
    }
    // hash-valid packs that no block names, carrying objects that CLAIM the digest of a genuine object through a
    // "#" member (constants::HASH_FIELD), once under a name sorting before and once after the genuine pack
    if let Some((pk, b)) = &some_pack {
        if let Ok(Value::Array(objs)) = serde_json::from_slice::<Value>(b) {
            if let Some(o) = objs.first() {
                let d = sha_hex(serde_json::to_string(o).unwrap().as_bytes());
                let (mut before, mut after) = (false, false);
                for nonce in 0..64 {
                    let bytes = format!("[{{\"nonce\":{}}},{{\"#\":\"{}\",\"v\":\"forged\"}}]", nonce, d).into_bytes();
                    let name = format!("{}.pack", sha_hex(&bytes));
                    if name < *pk && !before {
                        before = true;
                        v.push((name, bytes, "hash-valid-unreferenced-pack-claiming-a-genuine-digest"));
                    } else if name > *pk && !after {
                        after = true;
                        v.push((name, bytes, "hash-valid-unreferenced-pack-claiming-a-genuine-digest"));
                    }
                }
            }
        }
    }
    v
}

/// collects distinct committed storages from an exploration
fn collect_stores(thorough: bool) -> Vec<(String, RawStore)> {
    let sc = pair_conflict_scenario("pair-conflict", 2, 3, &[1, 8], if thorough { 3 } else { 2 }, &[Op::Resolve(1, 0, 1)]);
    let ex = Explorer { sc: sc.clone(), probes: vec![], limits: Limits { pool_size: 1, ..Default::default() } };
    let r = ex.run(true);
    let mut out: BTreeMap<String, (String, RawStore)> = BTreeMap::new();
    for h in &r.states {
        let w = sc.build(h);
        for rep in &w.reps {
            let s = rep.store.snapshot();
            if s.len() >= 2 {
                out.entry(store_digest(&s)).or_insert((hist_str(h), s));
            }
        }
    }
    let mut v: Vec<(String, RawStore)> = out.into_values().collect();
    v.sort_by_key(|(_, s)| s.len());
    if !thorough {
        // three stores: the smallest, a middle one, and the largest one of at most 8 items
        let small: Vec<(String, RawStore)> = v.into_iter().filter(|(_, s)| s.len() <= 8).collect();
        let n = small.len();
        let mut pick = vec![small[0].clone(), small[n / 2].clone(), small[n - 1].clone()];
        pick.dedup_by_key(|(_, s)| store_digest(s));
        pick
    } else {
        v.into_iter().filter(|(_, s)| s.len() <= 10).collect()
    }
}

pub fn run(thorough: bool) {
    let mut rep = Report::new("C10", if thorough { "thorough" } else { "quick" }, "fault_enumeration");
    let stores = collect_stores(thorough);
    let evals = AtomicU64::new(0);
    let outcomes: Mutex<BTreeMap<String, u64>> = Mutex::new(BTreeMap::new());
    let bad: Mutex<Vec<(String, Value)>> = Mutex::new(vec![]);
    let mut per_store = vec![];
    for (hist, store) in &stores {
        let keys: Vec<String> = store.keys().cloned().collect();
        // damaged variants: (description, damaged store, items damaged)
        let mut jobs: Vec<(String, RawStore, Option<(RawStore, RawStore)>, String)> = vec![];
        for k in &keys {
            let b = &store[k];
            for bit in 0..b.len() * 8 {
                let mut nb = b.clone();
                nb[bit / 8] ^= 1 << (bit % 8);
                let mut d = store.clone();
                d.insert(k.clone(), nb.clone());
                // live replica that has not loaded k (nor anything else yet): base = store without k
                let mut base = store.clone();
                base.remove(k);
                let extra: RawStore = [(k.clone(), nb)].into_iter().collect();
                jobs.push((format!("bitflip {} bit {}", k, bit), d, if bit % 8 == 0 { Some((base, extra)) } else { None }, "bitflip".into()));
            }
            for len in 0..b.len() {
                let mut d = store.clone();
                d.insert(k.clone(), b[..len].to_vec());
                let refresh = if len % 16 == 0 {
                    let mut base = store.clone();
                    base.remove(k);
                    Some((base, [(k.clone(), b[..len].to_vec())].into_iter().collect()))
                } else { None };
                jobs.push((format!("truncate {} to {}", k, len), d, refresh, "truncate".into()));
            }
        }
        // head-addressed opens: every flip / truncation / digit substitution of every item
        {
            let (m0, _s0) = match fresh_on(store, "C10 undamaged") { Ok(x) => x, Err(_) => continue };
            let heads = anchors_of(&m0);
            let want = {
                let st = crate::adapter::Store::from_map(store.clone());
                let ids = to_delta_ids(&heads);
                let m = melda::melda::Melda::new_until(st.adapter(), &ids).expect("undamaged new_until");
                let g = block_graph(&m);
                json!({"view": view(&m), "graph_infos": g.as_object().map(|o| o.iter().map(|(k, d)| (k.clone(), d["info"].clone())).collect::<serde_json::Map<String, Value>>())})
            };
            let mut ujobs: Vec<(String, RawStore)> = vec![];
            for k in &keys {
                let b = &store[k];
                for bit in (0..b.len() * 8).step_by(if thorough { 1 } else { 2 }) {
                    let mut nb = b.clone();
                    nb[bit / 8] ^= 1 << (bit % 8);
                    let mut d = store.clone();
                    d.insert(k.clone(), nb);
                    ujobs.push((format!("bitflip {} bit {} then new_until(heads)", k, bit), d));
                }
                for (i, c) in b.iter().enumerate() {
                    if c.is_ascii_alphanumeric() {
                        let mut nb = b.clone();
                        nb[i] = match *c { b'9' => b'0', b'z' => b'a', b'Z' => b'A', c => c + 1 };
                        let mut d = store.clone();
                        d.insert(k.clone(), nb);
                        ujobs.push((format!("character at {} of {} replaced then new_until(heads)", i, k), d));
                    }
                }
            }
            ujobs.par_iter().for_each(|(desc, damaged)| {
                evals.fetch_add(1, Ordering::Relaxed);
                match check_until(damaged, &heads, &want) {
                    Ok(o) => *outcomes.lock().unwrap().entry(format!("until:{}", o)).or_insert(0) += 1,
                    Err(mut d) => {
                        d["damage"] = json!(desc);
                        d["input"] = json!({"history_of_store": hist});
                        let mut b = bad.lock().unwrap();
                        if b.iter().filter(|(c, _)| c == "time-travel-open-exposes-altered-content").count() < 1 {
                            b.push(("time-travel-open-exposes-altered-content".to_string(), d));
                        }
                    }
                }
            });
        }
        let n = keys.len();
        if n <= 12 {
            for mask in 0u32..(1 << n) {
                let d: RawStore = keys.iter().enumerate().filter(|(i, _)| mask & (1 << i) != 0).map(|(_, k)| (k.clone(), store[k].clone())).collect();
                jobs.push((format!("keep only subset {:b}", mask), d, None, "delete-subset".into()));
            }
        }
        for (k, b, what) in junk_menu(store) {
            let mut d = store.clone();
            d.insert(k.clone(), b.clone());
            let extra: RawStore = [(k.clone(), b)].into_iter().collect();
            jobs.push((format!("inject {} ({})", k, what), d, Some((store.clone(), extra)), format!("inject:{}", what)));
        }
        let njobs = jobs.len();
        jobs.par_iter().for_each(|(desc, damaged, refresh, class)| {
            evals.fetch_add(1, Ordering::Relaxed);
            let r = crate::guard::call("check_open", || check_open(damaged)).unwrap_or_else(|p| Err(json!({"error": "harness-level panic", "panic": p})));
            match r {
                Ok(o) => *outcomes.lock().unwrap().entry(format!("{}:open:{}", class.split(':').next().unwrap(), o)).or_insert(0) += 1,
                Err(mut d) => {
                    d["damage"] = json!(desc);
                    d["input"] = json!({"history_of_store": hist, "keys": damaged.keys().collect::<Vec<_>>()});
                    let mut b = bad.lock().unwrap();
                    if b.iter().filter(|(c, _)| c == class).count() < 1 {
                        b.push((class.clone(), d));
                    }
                }
            }
            if refresh.is_some() {
                // (the variants that are also presented to a live replica are, in addition, written to a directory
                // and opened through the URL constructor)
                evals.fetch_add(1, Ordering::Relaxed);
                let r = crate::guard::call("check_open_url", || check_open_url(damaged)).unwrap_or_else(|p| Err(json!({"error": "harness-level panic", "panic": p})));
                match r {
                    Ok(o) => *outcomes.lock().unwrap().entry(format!("{}:open-by-url:{}", class.split(':').next().unwrap(), o)).or_insert(0) += 1,
                    Err(mut d) => {
                        d["damage"] = json!(format!("{}, opened with Melda::new_from_url(file://...)", desc));
                        d["input"] = json!({"history_of_store": hist});
                        let mut b = bad.lock().unwrap();
                        let cl = format!("{}:open-by-url", class);
                        if b.iter().filter(|(c, _)| *c == cl).count() < 1 {
                            b.push((cl, d));
                        }
                    }
                }
            }
            if let Some((base, extra)) = refresh {
                evals.fetch_add(1, Ordering::Relaxed);
                let r = crate::guard::call("check_refresh", || check_refresh(base, extra)).unwrap_or_else(|p| Err(json!({"error": "harness-level panic", "panic": p})));
                match r {
                    Ok(o) => *outcomes.lock().unwrap().entry(format!("{}:refresh:{}", class.split(':').next().unwrap(), o)).or_insert(0) += 1,
                    Err(mut d) => {
                        d["damage"] = json!(format!("{} presented to a live replica's refresh", desc));
                        d["input"] = json!({"history_of_store": hist});
                        let mut b = bad.lock().unwrap();
                        let cl = format!("{}:refresh", class);
                        if b.iter().filter(|(c, _)| *c == cl).count() < 1 {
                            b.push((cl, d));
                        }
                    }
                }
            }
        });
        per_store.push(json!({"history": hist, "items": n, "bytes": store.values().map(|v| v.len()).sum::<usize>(), "damaged_variants": njobs}));
    }
    // live replicas damaged in place (content must never be altered, errors are fine)
    let live: Vec<(u64, Option<Value>)> = stores.par_iter().map(|(hist, store)| live_damage(store, hist, thorough)).collect();
    let mut live_n = 0;
    for (n, v) in live {
        live_n += n;
        if let Some(d) = v {
            bad.lock().unwrap().push(("live-replica-exposes-altered-content".to_string(), d));
        }
    }
    let bl: Vec<(u64, Option<Value>)> = stores.par_iter().map(|(hist, store)| blocked_then_damaged(store, hist)).collect();
    for (n, v) in bl {
        live_n += n;
        if let Some(d) = v {
            bad.lock().unwrap().push(("indexed-pack-damaged-before-held-back-block-is-released".to_string(), d));
        }
    }
    let md: Vec<(u64, Option<Value>)> = stores.par_iter().map(|(hist, store)| meld_from_damaged(store, hist)).collect();
    let mut md_n = 0;
    for (n, v) in md {
        md_n += n;
        if let Some(d) = v {
            bad.lock().unwrap().push(("meld-from-a-damaged-source".to_string(), d));
        }
    }
    let fr: Vec<(u64, Option<Value>)> = stores.par_iter().map(|(hist, store)| failed_reload_then_refresh(store, hist)).collect();
    let mut fr_n = 0;
    for (n, v) in fr {
        fr_n += n;
        if let Some(d) = v {
            bad.lock().unwrap().push(("failed-reload-then-refresh".to_string(), d));
        }
    }
    evals.fetch_add(fr_n, Ordering::Relaxed);
    outcomes.lock().unwrap().insert("failed-reload-then-refresh:fresh-open-state-or-error".into(), fr_n);
    let (lost_n, lost_bad) = lost_item_then_reload(thorough);
    evals.fetch_add(lost_n, Ordering::Relaxed);
    outcomes.lock().unwrap().insert("lost-item-then-reload:fresh-open-state-and-durable-commits".into(), lost_n);
    if let Some(d) = lost_bad.into_iter().next() {
        bad.lock().unwrap().push(("lost-item-then-reload".to_string(), d));
    }
    evals.fetch_add(md_n, Ordering::Relaxed);
    outcomes.lock().unwrap().insert("meld-from-damaged-source:intact-subset-or-error".into(), md_n);
    evals.fetch_add(live_n, Ordering::Relaxed);
    outcomes.lock().unwrap().insert("live-in-place-damage:content-unaltered-or-error".into(), live_n);
    for (class, d) in bad.into_inner().unwrap() {
        rep.violations.push(Violation { property: "C10".into(), signature: format!("C10:{}", class), scenario: "corruption-sweep".into(), history: vec![], detail: d });
    }
    let oc = outcomes.into_inner().unwrap();
    rep.set("evaluations", json!(evals.load(Ordering::Relaxed)));
    rep.set("distinct_nontrivial", json!(oc.len()));
    rep.set("outcome_classes", json!(oc));
    rep.set("stores", json!(per_store));
    rep.push_sample(json!({"store_from_history": stores.last().map(|s| s.0.clone()), "damage": "every single-bit flip and every truncation of every item, every subset of items deleted, junk menu injected"}));
    rep.set("exhaustive", json!(true));
    rep.set("rule", json!("for each chosen storage (taken from explored two-replica histories with branches, merges and resolutions): EVERY single-bit flip of EVERY item, truncation of every item to EVERY shorter length, deletion of EVERY subset of items, and a junk menu (arbitrary names, well-formed names with non-matching bytes, valid items under other valid-looking names, correctly named files with malformed contents, empty and non-UTF8 files, an index beyond u32). Each damaged storage is opened with Melda::new, and (every 8th flip / 16th truncation / every injection) presented to a live replica's refresh; accepted outcomes: an error, or a state equal to a fresh open of the intact, causally complete subset (independent raw-byte reference); a panic is a violation. Also: a live replica reloads while an item is unreadable (every item truncated in place, junk items listed), the damage is undone, and it refreshes / reloads again: the state of a fresh open of the intact storage. Also: in every state of a small exploration, every item of an unstaged replica is removed from its storage and the replica reloaded: it must show what a fresh open shows, and every document then submitted and committed must reopen to the committer's state. Also: a live source replica with one item damaged in place (every item x 6 damage variants) is melded into an empty replica and into one holding every other item, then refreshed: same accepted outcomes. distinct_nontrivial = distinct (damage kind, route, outcome) classes"));
    rep.assume("damage applied to items a live replica has already loaded is not presented through refresh (the statement speaks of opening or refreshing after damage)");
    rep.finish();
}
