//! Guarded execution: every task runs on an executor thread (inside a rayon pool of a chosen
//! size) under `catch_unwind`, with a heartbeat-based watchdog. A task that stops making
//! progress is reported as `Hang` and its executor is abandoned (threads cannot be killed).
use std::any::Any;
use std::cell::RefCell;
use std::panic::{catch_unwind, AssertUnwindSafe};
use std::sync::atomic::{AtomicU64, Ordering};
use std::sync::mpsc::{channel, Receiver, RecvTimeoutError, Sender};
use std::sync::{Arc, Mutex, OnceLock};
use std::time::{Duration, Instant};

pub struct Prog {
    pub ctx: Mutex<String>,
    pub label: Mutex<String>,
    pub stamp: AtomicU64,
}

fn epoch() -> Instant {
    static E: OnceLock<Instant> = OnceLock::new();
    *E.get_or_init(Instant::now)
}

fn now_ms() -> u64 {
    epoch().elapsed().as_millis() as u64
}

thread_local! {
    static CUR: RefCell<Option<Arc<Prog>>> = const { RefCell::new(None) };
    /// identity of the world / instance the next calls operate on (history applied so far)
    static TRACE: RefCell<String> = const { RefCell::new(String::new()) };
    /// full labels of calls known (from the watchdog) not to return: they are not re-attempted
    static SKIP: RefCell<std::collections::HashSet<String>> = RefCell::new(std::collections::HashSet::new());
}

pub fn set_trace(t: &str) {
    TRACE.with(|c| {
        let mut c = c.borrow_mut();
        c.clear();
        c.push_str(t);
    });
}

pub fn get_trace() -> String {
    TRACE.with(|c| c.borrow().clone())
}

pub fn set_skip(skip: &[String]) {
    SKIP.with(|s| {
        let mut s = s.borrow_mut();
        s.clear();
        for x in skip {
            s.insert(x.clone());
        }
    });
}

pub const HANG_PREFIX: &str = "HANG:";

fn panic_locs() -> &'static Mutex<std::collections::HashMap<String, String>> {
    static M: OnceLock<Mutex<std::collections::HashMap<String, String>>> = OnceLock::new();
    M.get_or_init(|| Mutex::new(std::collections::HashMap::new()))
}

/// context of the running task (e.g. the history being replayed), reported on a hang
pub fn note_ctx(ctx: &str) {
    CUR.with(|c| {
        if let Some(p) = c.borrow().as_ref() {
            *p.ctx.lock().unwrap() = ctx.to_string();
            p.stamp.store(now_ms(), Ordering::SeqCst);
        }
    });
}

/// heartbeat: called before every call into the subject
pub fn note(label: &str) {
    CUR.with(|c| {
        if let Some(p) = c.borrow().as_ref() {
            *p.label.lock().unwrap() = label.to_string();
            p.stamp.store(now_ms(), Ordering::SeqCst);
        }
    });
}

pub fn install_quiet_panic_hook() {
    std::panic::set_hook(Box::new(|info| {
        let msg = if let Some(s) = info.payload().downcast_ref::<&str>() {
            s.to_string()
        } else if let Some(s) = info.payload().downcast_ref::<String>() {
            s.clone()
        } else {
            "<non-string panic>".to_string()
        };
        let loc = info
            .location()
            .map(|l| format!("{}:{}", l.file(), l.line()))
            .unwrap_or_default();
        if let Ok(mut m) = panic_locs().lock() {
            if m.len() < 10000 {
                m.insert(msg.clone(), loc.clone());
            }
        }
        if std::env::var("MV_SHOW_PANICS").is_ok() {
            eprintln!("[panic] {} @ {}", msg, loc);
        }
    }));
}

pub fn payload_msg(e: &Box<dyn Any + Send>) -> String {
    if let Some(s) = e.downcast_ref::<&str>() {
        s.to_string()
    } else if let Some(s) = e.downcast_ref::<String>() {
        s.clone()
    } else {
        "<non-string panic>".to_string()
    }
}

/// Calls into the subject under catch_unwind; a panic becomes Err(message)
pub fn call<T>(label: &str, f: impl FnOnce() -> T) -> Result<T, String> {
    let full = TRACE.with(|t| format!("{} :: {}", t.borrow(), label));
    if SKIP.with(|s| s.borrow().contains(&full)) {
        return Err(format!("{} did not return within the watchdog: {}", HANG_PREFIX, full));
    }
    note(&full);
    match catch_unwind(AssertUnwindSafe(f)) {
        Ok(v) => Ok(v),
        Err(e) => {
            let msg = payload_msg(&e);
            let loc = panic_locs()
                .lock()
                .ok()
                .and_then(|m| m.get(&msg).cloned())
                .unwrap_or_default();
            Err(format!("{} @ {}", msg, loc))
        }
    }
}

pub enum Outcome<R> {
    Done(R),
    Panic(String),
    /// (task context, label of the call that did not return)
    Hang(String, String),
}

type Job = Box<dyn FnOnce() -> Box<dyn Any + Send> + Send>;

/// OS thread id of the calling thread (Linux: /proc/thread-self -> "<pid>/task/<tid>")
fn current_tid() -> Option<u64> {
    let l = std::fs::read_link("/proc/thread-self").ok()?;
    l.file_name()?.to_str()?.parse().ok()
}

/// (state, user+system cpu ticks) of one thread of this process
fn thread_stat(tid: u64) -> Option<(char, u64)> {
    let s = std::fs::read_to_string(format!("/proc/self/task/{}/stat", tid)).ok()?;
    // "<tid> (<comm>) <state> ..." - comm may contain spaces/parentheses: split at the LAST ')'
    let rest = &s[s.rfind(')')? + 1..];
    let f: Vec<&str> = rest.split_whitespace().collect();
    let state = f.first()?.chars().next()?;
    let utime: u64 = f.get(11)?.parse().ok()?;
    let stime: u64 = f.get(12)?.parse().ok()?;
    Some((state, utime + stime))
}

/// A stale heartbeat is only a hang if the executor's threads are really blocked: every one of them sleeping
/// and none of them consuming CPU over the confirmation window. On a heavily loaded machine a starved but
/// runnable task (state R, or CPU time advancing) is slow, not hung.
fn confirmed_blocked(tids: &[u64]) -> bool {
    if tids.is_empty() {
        return true;
    }
    let sample = |tids: &[u64]| -> Option<(bool, u64)> {
        let mut all_sleeping = true;
        let mut cpu = 0u64;
        for t in tids {
            let (st, c) = thread_stat(*t)?;
            if st != 'S' {
                all_sleeping = false;
            }
            cpu += c;
        }
        Some((all_sleeping, cpu))
    };
    let Some((s0, c0)) = sample(tids) else { return true };
    if std::env::var("MV_WD_DEBUG").is_ok() {
        let st: Vec<String> = tids.iter().map(|t| format!("{}:{:?}", t, thread_stat(*t))).collect();
        eprintln!("watchdog sample: {}", st.join(" "));
    }
    if !s0 {
        return false;
    }
    for _ in 0..4 {
        std::thread::sleep(Duration::from_millis(250));
        match sample(tids) {
            Some((true, c)) if c == c0 => {}
            Some(_) => return false,
            None => return true,
        }
    }
    true
}

pub struct Exec {
    tids: Arc<Mutex<Vec<u64>>>,
    tx: Sender<Job>,
    rx: Receiver<Result<Box<dyn Any + Send>, String>>,
    prog: Arc<Prog>,
    pool_size: usize,
    pub watchdog: Duration,
    pub hangs: usize,
}

impl Exec {
    pub fn new(pool_size: usize) -> Exec {
        let (tx, jrx) = channel::<Job>();
        let (rtx, rx) = channel();
        let prog = Arc::new(Prog {
            ctx: Mutex::new(String::new()),
            label: Mutex::new(String::new()),
            stamp: AtomicU64::new(now_ms()),
        });
        let p2 = prog.clone();
        let tids: Arc<Mutex<Vec<u64>>> = Arc::new(Mutex::new(vec![]));
        let (t2, t3) = (tids.clone(), tids.clone());
        std::thread::Builder::new()
            .stack_size(64 << 20)
            .spawn(move || {
                if let Some(t) = current_tid() {
                    t2.lock().unwrap().push(t);
                }
                let pool = if pool_size > 0 {
                    Some(
                        rayon::ThreadPoolBuilder::new()
                            .num_threads(pool_size)
                            .stack_size(64 << 20)
                            .start_handler(move |_| {
                                if let Some(t) = current_tid() {
                                    t3.lock().unwrap().push(t);
                                }
                            })
                            .build()
                            .unwrap(),
                    )
                } else {
                    None
                };
                while let Ok(job) = jrx.recv() {
                    let p3 = p2.clone();
                    let run = move || {
                        CUR.with(|c| *c.borrow_mut() = Some(p3));
                        let r = catch_unwind(AssertUnwindSafe(job));
                        CUR.with(|c| *c.borrow_mut() = None);
                        r.map_err(|e| payload_msg(&e))
                    };
                    let r = match &pool {
                        Some(pool) => pool.install(run),
                        None => run(),
                    };
                    if rtx.send(r).is_err() {
                        break;
                    }
                }
            })
            .unwrap();
        let wd = std::env::var("MV_WATCHDOG_S")
            .ok()
            .and_then(|s| s.parse().ok())
            .unwrap_or(10u64);
        Exec {
            tids,
            tx,
            rx,
            prog,
            pool_size,
            watchdog: Duration::from_secs(wd),
            hangs: 0,
        }
    }

    pub fn run<R: Send + 'static>(&mut self, f: impl FnOnce() -> R + Send + 'static) -> Outcome<R> {
        self.prog.stamp.store(now_ms(), Ordering::SeqCst);
        *self.prog.label.lock().unwrap() = "<start>".to_string();
        let job: Job = Box::new(move || Box::new(f()) as Box<dyn Any + Send>);
        self.tx.send(job).expect("executor gone");
        loop {
            match self.rx.recv_timeout(Duration::from_millis(200)) {
                Ok(Ok(b)) => return Outcome::Done(*b.downcast::<R>().expect("type")),
                Ok(Err(msg)) => return Outcome::Panic(msg),
                Err(RecvTimeoutError::Timeout) => {
                    let last = self.prog.stamp.load(Ordering::SeqCst);
                    let stale = now_ms().saturating_sub(last);
                    if stale > self.watchdog.as_millis() as u64 {
                        // confirm with the operating system that the executor's threads are blocked (not merely
                        // starved); a busy task is given up to 30 watchdog periods before it is called hung
                        let tids = self.tids.lock().unwrap().clone();
                        let complete = self.pool_size > 0 && tids.len() == self.pool_size + 1;
                        if complete && stale < 30 * self.watchdog.as_millis() as u64 && !confirmed_blocked(&tids) {
                            continue;
                        }
                        let label = self.prog.label.lock().unwrap().clone();
                        let ctx = self.prog.ctx.lock().unwrap().clone();
                        // abandon this executor
                        let fresh = Exec::new(self.pool_size);
                        let hangs = self.hangs + 1;
                        let wd = self.watchdog;
                        *self = fresh;
                        self.hangs = hangs;
                        self.watchdog = wd;
                        return Outcome::Hang(ctx, label);
                    }
                }
                Err(RecvTimeoutError::Disconnected) => {
                    let fresh = Exec::new(self.pool_size);
                    *self = fresh;
                    return Outcome::Panic("executor thread died".to_string());
                }
            }
        }
    }
}
