//! Evidence / verdict reporting shared by all checks.
use crate::explore::Violation;
use serde_json::{json, Map, Value};
use std::time::Instant;

pub struct Report {
    pub property: String,
    pub tier: String,
    pub level: String,
    pub t0: Instant,
    pub coverage: Map<String, Value>,
    pub assumptions: Vec<String>,
    pub violations: Vec<Violation>,
}

pub fn verif_root() -> String {
    std::env::var("VERIF_ROOT").unwrap_or_else(|_| "/verif".to_string())
}

impl Report {
    pub fn new(property: &str, tier: &str, level: &str) -> Report {
        Report {
            property: property.to_string(),
            tier: tier.to_string(),
            level: level.to_string(),
            t0: Instant::now(),
            coverage: Map::new(),
            assumptions: vec![],
            violations: vec![],
        }
    }
    pub fn set(&mut self, k: &str, v: Value) {
        self.coverage.insert(k.to_string(), v);
    }
    pub fn add_u64(&mut self, k: &str, n: u64) {
        let cur = self.coverage.get(k).and_then(|v| v.as_u64()).unwrap_or(0);
        self.coverage.insert(k.to_string(), json!(cur + n));
    }
    pub fn push_sample(&mut self, v: Value) {
        let e = self
            .coverage
            .entry("samples".to_string())
            .or_insert_with(|| json!([]));
        if let Some(a) = e.as_array_mut() {
            if a.len() < 6 {
                a.push(v);
            }
        }
    }
    pub fn assume(&mut self, s: &str) {
        self.assumptions.push(s.to_string());
    }

    /// Writes evidence + replay files, prints verdict lines, exits.
    pub fn finish(mut self) -> ! {
        let root = verif_root();
        let known: Vec<Value> = std::fs::read_to_string(format!("{}/known_findings.json", root))
            .ok()
            .and_then(|s| serde_json::from_str::<Value>(&s).ok())
            .and_then(|v| v.get("findings").and_then(|f| f.as_array().cloned()))
            .unwrap_or_default();
        let mut new_violations = 0;
        let mut known_hits: Vec<String> = vec![];
        let mut lines: Vec<String> = vec![];
        let mut seen_sigs = std::collections::BTreeSet::new();
        let replay_only = std::env::var("MV_NO_EVIDENCE").is_ok();
        for v in &self.violations {
            if !seen_sigs.insert(v.signature.clone()) {
                continue;
            }
            let k = known.iter().find(|k| {
                k.get("status").and_then(|s| s.as_str()) == Some("known")
                    && k.get("property").and_then(|s| s.as_str()) == Some(v.property.as_str())
                    && k.get("signature").and_then(|s| s.as_str()) == Some(v.signature.as_str())
            });
            match k {
                Some(k) => {
                    let what = k.get("what").and_then(|s| s.as_str()).unwrap_or("");
                    lines.push(format!(
                        "KNOWN-FINDING: property={} {} [{}]",
                        v.property, what, v.signature
                    ));
                    known_hits.push(v.signature.clone());
                }
                None => {
                    new_violations += 1;
                    let body = serde_json::to_string_pretty(&v.to_json()).unwrap();
                    let h = crate::world::sha_hex(body.as_bytes());
                    let dir = format!("{}/replays", root);
                    let _ = std::fs::create_dir_all(&dir);
                    let path = format!("{}/{}-{}.json", dir, v.property, &h[..12]);
                    let _ = std::fs::write(&path, body);
                    lines.push(format!(
                        "VIOLATION property={} replay={}  # {} :: {}",
                        v.property,
                        path,
                        v.signature,
                        crate::world::hist_str(&v.history)
                    ));
                }
            }
        }
        let wall = self.t0.elapsed().as_secs_f64();
        if !self.coverage.contains_key("samples") {
            self.coverage.insert("samples".into(), json!([]));
        }
        self.coverage
            .insert("known_findings_hit".into(), json!(known_hits));
        let ev = json!({
            "property_id": self.property,
            "tier": self.tier,
            "seed": std::env::var("VERIF_SEED").ok().and_then(|s| s.parse::<i64>().ok()).unwrap_or(0),
            "level": self.level,
            "coverage": self.coverage,
            "assumptions": self.assumptions,
            "wall_s": (wall * 1000.0).round() / 1000.0,
            "violations": new_violations,
        });
        if !replay_only {
            let dir = format!("{}/evidence", root);
            let _ = std::fs::create_dir_all(&dir);
            let path = format!("{}/{}.json", dir, self.property);
            std::fs::write(&path, serde_json::to_string_pretty(&ev).unwrap())
                .expect("cannot write evidence");
        }
        for l in &lines {
            println!("{}", l);
        }
        println!(
            "{} tier={} violations={} known_findings={} wall={:.1}s",
            self.property,
            self.tier,
            new_violations,
            known_hits.len(),
            wall
        );
        std::process::exit(if new_violations > 0 { 1 } else { 0 });
    }
}
